/-
  Refinement of the engine model to the reference machine of `Spec/PureMachine.lean` on the cut-free
  fragment (calls, built-ins, `,`, `;`, `not`): every request on a node is a run of the machine from the node's abstraction.
-/
import SuironVerif.Spec.PureMachine
namespace Suiron.Spec
open Suiron

mutual
/-- goals of the cut-free fragment (no `!`, no `time`) -/
def pureG : Goal → Bool
  | .call _ => true
  | .bip name _ => name != "!"
  | .and gs => gs.length != 0 && pureGL gs
  | .or gs => gs.length != 0 && pureGL gs
  | .not gs => gs.length != 0 && pureGL gs
  | _ => false
def pureGL : GoalList → Bool
  | .nil => true
  | .cons g gs => pureG g && pureGL gs
end

/-- no timer is pending and the query has not been stopped -/
def GOK (g : G) : Prop := g.stop = false ∧ g.fireAt = none

theorem countRules_ok {kb : KB} {key : String} {g : G} (h : GOK g) :
    (countRules kb key g).1 = ruleCount kb key ∧ GOK (countRules kb key g).2 ∧
    (countRules kb key g).2.counter = g.counter ∧ (countRules kb key g).2.out = g.out := by
  unfold countRules ruleCount
  simp only [h.1, h.2, Bool.false_or]
  have : ((none : Option Nat) == some (g.ticks + 1)) = false := rfl
  simp only [this, Bool.false_eq_true, if_false]
  cases kb.get key <;> exact ⟨rfl, ⟨rfl, rfl⟩, rfl, rfl⟩

/-- the alternatives a node still holds, each continued by `k` -/
def absN : Node → List Goal → List PFrame
  | .bip name args σ _ more, k => if more then [.goals (.bip name args :: k) σ] else []
  | .call t σ _ child idx n, k =>
    (match child with | some c => absN c k | none => []) ++ tryFrame t σ idx n k
  | .op .and _ _ _ head rest tail, k =>
    (match tail with | some tn => absN tn k | none => []) ++ absN head (rest.toList ++ k)
  | .op .or σ _ _ head rest tail, k =>
    match tail with
    | some tn => absN tn k
    | none => absN head k ++ (if rest.length = 0 then [] else [.goals (.or rest :: k) σ])
  | .op .not σ _ more head _ _, k => if more then [.notF (absN head []) σ k] else []
  | .op .time _ _ _ _ _ _, _ => []

/-- nodes of the fragment: nothing is marked by a cut, operators are and / or, stored goals are pure -/
def pureN : Node → Prop
  | .bip name _ _ nb _ => name ≠ "!" ∧ nb = false
  | .call _ _ nb child _ _ => nb = false ∧ (match child with | some c => pureN c | none => True)
  | .op .and _ nb _ head rest tail => nb = false ∧ pureGL rest = true ∧ pureN head ∧ (match tail with | some tn => pureN tn | none => True)
  | .op .or _ nb _ head rest tail => nb = false ∧ pureGL rest = true ∧ pureN head ∧ (match tail with | some tn => pureN tn | none => True)
  | .op .not _ nb _ head _ _ => nb = false ∧ pureN head
  | .op .time _ _ _ _ _ _ => False

theorem mk_steps (fo : FloatOps) (kb : KB) : (g : Goal) → (σ : Subst) → (G0 : G) → (N : Node) → (G1 : G) → (k : List Goal) → (S : List PFrame) →
    mkNode fo.showF kb g σ G0 = .ok (N, G1) → pureG g = true → GOK G0 →
    PSteps fo kb ⟨.goals (g :: k) σ :: S, G0.counter, G0.out⟩ ⟨absN N k ++ S, G0.counter, G0.out⟩ ∧
      G1.counter = G0.counter ∧ G1.out = G0.out ∧ GOK G1 ∧ pureN N
  | .call t, σ, G0, N, G1, k, S, h, _, hg => by
    simp only [mkNode] at h
    obtain ⟨key, hkey, h⟩ := Res.bind_eq_ok.mp h
    cases h
    have hc := countRules_ok (kb := kb) (key := key) hg
    refine ⟨?_, hc.2.2.1, hc.2.2.2, hc.2.1, ⟨rfl, trivial⟩⟩
    simp only [absN, List.nil_append, hc.1]
    exact PSteps.one (PStep.call hkey)
  | .bip name args, σ, G0, N, G1, k, S, h, hp, hg => by
    simp only [mkNode] at h; cases h
    refine ⟨?_, rfl, rfl, hg, ⟨by simpa [pureG] using hp, rfl⟩⟩
    simp only [absN, if_true]
    exact PSteps.refl
  | .and (.cons hd rest), σ, G0, N, G1, k, S, h, hp, hg => by
    simp only [mkNode] at h
    obtain ⟨r, hr, h⟩ := Res.bind_eq_ok.mp h
    cases h
    simp only [pureG, pureGL, Bool.and_eq_true] at hp
    have ih := mk_steps fo kb hd σ G0 r.1 r.2 (rest.toList ++ k) S hr hp.2.1 hg
    refine ⟨?_, ih.2.1, ih.2.2.1, ih.2.2.2.1, ⟨rfl, hp.2.2, ih.2.2.2.2, trivial⟩⟩
    simp only [absN, List.nil_append]
    exact PSteps.step PStep.conj (by simpa [GoalList.toList] using ih.1)
  | .or (.cons hd rest), σ, G0, N, G1, k, S, h, hp, hg => by
    simp only [mkNode] at h
    obtain ⟨r, hr, h⟩ := Res.bind_eq_ok.mp h
    cases h
    simp only [pureG, pureGL, Bool.and_eq_true] at hp
    have ih := mk_steps fo kb hd σ G0 r.1 r.2 k ((if rest.length = 0 then [] else [.goals (.or rest :: k) σ]) ++ S) hr hp.2.1 hg
    refine ⟨?_, ih.2.1, ih.2.2.1, ih.2.2.2.1, ⟨rfl, hp.2.2, ih.2.2.2.2, trivial⟩⟩
    simp only [absN, List.append_assoc]
    exact PSteps.step PStep.disj ih.1
  | .and .nil, σ, G0, N, G1, k, S, h, _, _ => by simp [mkNode] at h
  | .or .nil, σ, G0, N, G1, k, S, h, _, _ => by simp [mkNode] at h
  | .time _, σ, G0, N, G1, k, S, _, hp, _ => by simp [pureG] at hp
  | .not (.cons hd rest), σ, G0, N, G1, k, S, h, hp, hg => by
    simp only [mkNode] at h
    obtain ⟨r, hr, h⟩ := Res.bind_eq_ok.mp h
    cases h
    simp only [pureG, pureGL, Bool.and_eq_true] at hp
    have ih := mk_steps fo kb hd σ G0 r.1 r.2 [] [] hr hp.2.1 hg
    refine ⟨?_, ih.2.1, ih.2.2.1, ih.2.2.2.1, ⟨rfl, ih.2.2.2.2⟩⟩
    simp only [absN, if_true, List.cons_append, List.nil_append]
    have := ih.1.notIn σ k S
    simp only [List.append_nil] at this
    exact PSteps.step PStep.notEnter this
  | .not .nil, σ, G0, N, G1, k, S, h, _, _ => by simp [mkNode] at h
  | .nil, σ, G0, N, G1, k, S, _, hp, _ => by simp [pureG] at hp


open Suiron

/-- the renamed clauses the knowledge base hands out have bodies in the fragment (or are facts) -/
def PureKB (kb : KB) : Prop :=
  ∀ key idx c rule c', getRule kb key idx c = .ok (rule, c') → rule.body.isNil = true ∨ pureG rule.body = true

def dead (N : Node) : Prop := ∀ k, absN N k = []

/-- what a request on a node means for the machine: from the node's alternatives (`start`, above `B`) it runs
    to the answer `σ'` continued by `k` with the successor node's alternatives above `B`, or — no answer — down
    to `B` alone, the successor node holding nothing any more. -/
def Ref (fo : FloatOps) (kb : KB) (st : Step) (G0 : G) (start : List PFrame) (k : List Goal) (B : List PFrame) : Prop :=
  (match st.sol with
   | some σ' => PSteps fo kb ⟨start ++ B, G0.counter, G0.out⟩ ⟨.goals k σ' :: (absN st.node k ++ B), st.g.counter, st.g.out⟩
   | none => PSteps fo kb ⟨start ++ B, G0.counter, G0.out⟩ ⟨B, st.g.counter, st.g.out⟩ ∧ dead st.node) ∧
  pureN st.node ∧ GOK st.g ∧ st.cut = false

theorem GOK_emit {g : G} (h : GOK g) (s : String) : GOK (g.emit s) := by
  unfold G.emit; split <;> exact h

theorem emit_out (g : G) (s : String) : (g.emit s).out = emitOut g.out s ∧ (g.emit s).counter = g.counter := by
  unfold G.emit emitOut; split <;> simp

theorem Ref.pre {fo : FloatOps} {kb : KB} {st : Step} {G0 G1 : G} {start start' : List PFrame} {k : List Goal} {B : List PFrame}
    (h1 : PSteps fo kb ⟨start' ++ B, G0.counter, G0.out⟩ ⟨start ++ B, G1.counter, G1.out⟩)
    (h2 : Ref fo kb st G1 start k B) : Ref fo kb st G0 start' k B := by
  unfold Ref at h2 ⊢
  refine ⟨?_, h2.2⟩
  cases hs : st.sol with
  | some σ' => have := h2.1; rw [hs] at this; exact h1.trans this
  | none => have := h2.1; rw [hs] at this; exact ⟨h1.trans this.1, this.2⟩

/-- the rest of a conjunction, already spliced into the goal list, against the node the engine makes for it -/
theorem mk_steps_spliced (fo : FloatOps) (kb : KB) (rest : GoalList) (σ : Subst) (G0 : G) (N : Node) (G1 : G)
    (k : List Goal) (S : List PFrame) (h : mkNode fo.showF kb (.and rest) σ G0 = .ok (N, G1))
    (hp : pureGL rest = true) (hg : GOK G0) :
    PSteps fo kb ⟨.goals (rest.toList ++ k) σ :: S, G0.counter, G0.out⟩ ⟨absN N k ++ S, G0.counter, G0.out⟩ ∧
      G1.counter = G0.counter ∧ G1.out = G0.out ∧ GOK G1 ∧ pureN N := by
  cases rest with
  | nil => simp [mkNode] at h
  | cons hd rest' =>
    simp only [mkNode] at h
    obtain ⟨r, hr, h⟩ := Res.bind_eq_ok.mp h
    cases h
    simp only [pureGL, Bool.and_eq_true] at hp
    have ih := mk_steps fo kb hd σ G0 r.1 r.2 (rest'.toList ++ k) S hr hp.1 hg
    refine ⟨?_, ih.2.1, ih.2.2.1, ih.2.2.2.1, ⟨rfl, hp.2, ih.2.2.2.2, trivial⟩⟩
    simp only [absN, List.nil_append]
    simpa [GoalList.toList] using ih.1

theorem call_stale (t : Term) (σ : Subst) (child : Option Node) (idx n : Nat)
    (h : match child with | some c => dead c ∧ pureN c | none => True) :
    (∀ k, absN (.call t σ false child idx n) k = tryFrame t σ idx n k) ∧ pureN (.call t σ false child idx n) := by
  cases child with
  | none => exact ⟨fun k => by simp [absN], by unfold pureN; exact ⟨rfl, trivial⟩⟩
  | some c => exact ⟨fun k => by simp [absN, h.1 k], by unfold pureN; exact ⟨rfl, h.2⟩⟩

theorem and_stale (σ : Subst) (more : Bool) (hd : Node) (rest : GoalList) (tail : Option Node)
    (h : match tail with | some tn => dead tn ∧ pureN tn | none => True) :
    (∀ k, absN (.op .and σ false more hd rest tail) k = absN hd (rest.toList ++ k)) ∧
    (pureGL rest = true → pureN hd → pureN (.op .and σ false more hd rest tail)) := by
  cases tail with
  | none => exact ⟨fun k => by simp [absN], fun h1 h2 => by unfold pureN; exact ⟨rfl, h1, h2, trivial⟩⟩
  | some tn => exact ⟨fun k => by simp [absN, h.1 k], fun h1 h2 => by unfold pureN; exact ⟨rfl, h1, h2, h.2⟩⟩

theorem next_refines_pure (fo : FloatOps) (kb : KB) (hkb : PureKB kb) : ∀ f,
    (∀ N G0 st k B, next fo kb f N G0 = .ok st → pureN N → GOK G0 → Ref fo kb st G0 (absN N k) k B) ∧
    (∀ t σ nb child idx n G0 st k B, callLoop fo kb f t σ nb child idx n G0 = .ok st → nb = false →
        (match child with | some c => dead c ∧ pureN c | none => True) → GOK G0 →
        Ref fo kb st G0 (tryFrame t σ idx n k) k B) ∧
    (∀ σ nb more head rest tail cutAcc G0 st k B, andLoop fo kb f σ nb more head rest tail cutAcc G0 = .ok st →
        nb = false → cutAcc = false → pureGL rest = true → pureN head →
        (match tail with | some tn => dead tn ∧ pureN tn | none => True) → GOK G0 →
        Ref fo kb st G0 (absN head (rest.toList ++ k)) k B) := by
  intro f
  induction f with
  | zero =>
    refine ⟨?_, ?_, ?_⟩
    · intro N G0 st k B h; simp [next] at h
    · intro t σ nb child idx n G0 st k B h; simp [callLoop] at h
    · intro σ nb more head rest tail cutAcc G0 st k B h; simp [andLoop] at h
  | succ f ih =>
    obtain ⟨ihN, ihC, ihA⟩ := ih
    refine ⟨?_, ?_, ?_⟩
    · intro N G0 st k B h hp hg
      cases N with
      | bip name args σ nb more =>
        obtain ⟨hname, hnb⟩ := hp; subst hnb
        simp only [next, Node.nb] at h; simp at h
        by_cases hm : more = true
        · subst hm
          simp [hname] at h
          obtain ⟨r, hr, h⟩ := Res.bind_eq_ok.mp h; cases h
          have ho := emit_out G0 r.out
          refine ⟨?_, ⟨hname, rfl⟩, GOK_emit hg _, rfl⟩
          cases hs : r.sol with
          | some σ' =>
            simp only [absN, if_true, List.cons_append, List.nil_append, Bool.false_eq_true, if_false]
            have hr' : runBip fo f name (optList args) σ = .ok ⟨some σ', r.out⟩ := by rw [hr]; cases r; simp_all
            rw [ho.1, ho.2]
            exact PSteps.one (PStep.bipOk hname hr')
          | none =>
            simp only [absN, if_true, List.cons_append, List.nil_append]
            have hr' : runBip fo f name (optList args) σ = .ok ⟨none, r.out⟩ := by rw [hr]; cases r; simp_all
            rw [ho.1, ho.2]
            exact ⟨PSteps.one (PStep.bipFail hname hr'), by intro k'; simp [absN]⟩
        · simp at hm; subst hm; simp at h; subst h
          refine ⟨?_, ⟨hname, rfl⟩, hg, rfl⟩
          simp only [absN, Bool.false_eq_true, if_false, List.nil_append]
          exact ⟨PSteps.refl, by intro k'; simp [absN]⟩
      | call t σ nb child idx n =>
        unfold pureN at hp
        obtain ⟨hnb, hch⟩ := hp; subst hnb
        simp only [next, Node.nb] at h; simp at h
        cases child with
        | none =>
          simp at h
          have := ihC _ _ _ _ _ _ _ _ k B h rfl trivial hg
          simpa [absN] using this
        | some c =>
          simp at h hch
          obtain ⟨r, hr, h⟩ := Res.bind_eq_ok.mp h
          obtain ⟨hrun, hpn, hgo, hcut⟩ := ihN c G0 r k (tryFrame t σ idx n k ++ B) hr hch hg
          by_cases hsol : r.sol.isSome = true
          · simp [hsol] at h; subst h
            obtain ⟨σ', hσ'⟩ := Option.isSome_iff_exists.mp hsol
            refine ⟨?_, ⟨by simp [hcut], hpn⟩, hgo, rfl⟩
            simp only [hσ'] at hrun ⊢
            simpa [absN, List.append_assoc] using hrun
          · simp [hsol] at h
            have hnone : r.sol = none := by cases hs : r.sol <;> simp_all
            rw [hnone] at hrun
            rw [hcut] at h
            have hc2 := ihC t σ false none idx n r.g st k B h rfl trivial hgo
            refine Ref.pre ?_ hc2
            simpa [absN, List.append_assoc] using hrun.1
      | op kd σ nb more head rest tail =>
        cases kd with
        | and =>
          unfold pureN at hp
          obtain ⟨hnb, hrest, hhead, htail⟩ := hp; subst hnb
          simp only [next, Node.nb] at h; simp at h
          cases tail with
          | none =>
            simp at h
            have := ihA σ false more head rest none false G0 st k B h rfl rfl hrest hhead trivial hg
            simpa [absN] using this
          | some tn =>
            simp at h htail
            obtain ⟨r, hr, h⟩ := Res.bind_eq_ok.mp h
            obtain ⟨hrun, hpn, hgo, hcut⟩ := ihN tn G0 r k (absN head (rest.toList ++ k) ++ B) hr htail hg
            rw [hcut] at h; simp at h
            by_cases hsol : r.sol.isSome = true
            · simp [hsol] at h; subst h
              obtain ⟨σ', hσ'⟩ := Option.isSome_iff_exists.mp hsol
              refine ⟨?_, (by unfold pureN; exact ⟨rfl, hrest, hhead, hpn⟩), hgo, rfl⟩
              simp only [hσ'] at hrun ⊢
              simpa [absN, List.append_assoc] using hrun
            · simp [hsol] at h
              have hnone : r.sol = none := by cases hs : r.sol <;> simp_all
              rw [hnone] at hrun
              have hc2 := ihA σ false more head rest (some r.node) false r.g st k B h rfl rfl hrest hhead ⟨hrun.2, hpn⟩ hgo
              refine Ref.pre ?_ hc2
              simpa [absN, List.append_assoc] using hrun.1
        | or =>
          unfold pureN at hp
          obtain ⟨hnb, hrest, hhead, htail⟩ := hp; subst hnb
          simp only [next, Node.nb] at h; simp at h
          cases tail with
          | some tn =>
            simp at h htail
            obtain ⟨r, hr, h⟩ := Res.bind_eq_ok.mp h
            obtain ⟨hrun, hpn, hgo, hcut⟩ := ihN tn G0 r k B hr htail hg
            cases h
            rw [hcut]
            refine ⟨?_, (by unfold pureN; simp; exact ⟨hrest, hhead, hpn⟩), hgo, rfl⟩
            cases hs : r.sol with
            | some σ' => rw [hs] at hrun; simpa [absN] using hrun
            | none => rw [hs] at hrun; exact ⟨by simpa [absN] using hrun.1, by intro k'; simp [absN, hrun.2 k']⟩
          | none =>
            simp at h
            obtain ⟨r, hr, h⟩ := Res.bind_eq_ok.mp h
            obtain ⟨hrun, hpn, hgo, hcut⟩ := ihN head G0 r k
              ((if rest.length = 0 then [] else [.goals (.or rest :: k) σ]) ++ B) hr hhead hg
            rw [hcut] at h; simp at h
            by_cases hsol : r.sol.isSome = true
            · simp [hsol] at h; subst h
              obtain ⟨σ', hσ'⟩ := Option.isSome_iff_exists.mp hsol
              refine ⟨?_, (by unfold pureN; exact ⟨rfl, hrest, hpn, trivial⟩), hgo, rfl⟩
              simp only [hσ'] at hrun ⊢
              simpa [absN, List.append_assoc] using hrun
            · simp [hsol] at h
              have hnone : r.sol = none := by cases hs : r.sol <;> simp_all
              rw [hnone] at hrun
              by_cases hl : rest.length = 0
              · simp [hl] at h; subst h
                refine ⟨?_, (by unfold pureN; exact ⟨rfl, hrest, hpn, trivial⟩), hgo, rfl⟩
                simp only [hl, if_true, List.nil_append] at hrun
                exact ⟨by simpa [absN, hl] using hrun.1, by intro k'; simp [absN, hrun.2 k', hl]⟩
              · simp [hl] at h
                obtain ⟨m, hm, h⟩ := Res.bind_eq_ok.mp h
                obtain ⟨r2, hr2, h⟩ := Res.bind_eq_ok.mp h
                have hpor : pureG (.or rest) = true := by simp [pureG, hl, hrest]
                obtain ⟨hmk, hmc, hmo, hmg, hmp⟩ := mk_steps fo kb (.or rest) σ r.g m.1 m.2 k B hm hpor hgo
                obtain ⟨hrun2, hpn2, hgo2, hcut2⟩ := ihN m.1 m.2 r2 k B hr2 hmp hmg
                cases h
                rw [hcut2]
                refine ⟨?_, (by unfold pureN; simp; exact ⟨hrest, hpn, hpn2⟩), hgo2, by simp⟩
                simp only [hl, if_false, List.cons_append, List.nil_append] at hrun
                have hpre : PSteps fo kb ⟨absN head k ++ [.goals (.or rest :: k) σ] ++ B, G0.counter, G0.out⟩
                    ⟨absN m.1 k ++ B, m.2.counter, m.2.out⟩ := by
                  rw [hmc, hmo]
                  exact (by simpa [List.append_assoc] using hrun.1 : PSteps fo kb _ _).trans hmk
                cases hs2 : r2.sol with
                | some σ' =>
                  rw [hs2] at hrun2
                  simp only [absN, hl, if_false]
                  exact hpre.trans hrun2
                | none =>
                  rw [hs2] at hrun2
                  simp only [absN, hl, if_false]
                  exact ⟨hpre.trans hrun2.1, by intro k'; simp [absN, hrun2.2 k']⟩
        | not =>
          unfold pureN at hp
          obtain ⟨hnb, hhead⟩ := hp; subst hnb
          simp only [next, Node.nb] at h; simp at h
          by_cases hm : more = true
          · subst hm
            simp at h
            obtain ⟨r, hr, h⟩ := Res.bind_eq_ok.mp h
            obtain ⟨hrun, hpn, hgo, hcut⟩ := ihN head G0 r [] [] hr hhead hg
            cases h
            rw [hcut]
            refine ⟨?_, (by unfold pureN; simp; exact hpn), hgo, rfl⟩
            cases hs : r.sol with
            | some σ' =>
              rw [hs] at hrun
              have w := hrun.notIn σ k B
              simp only [List.append_nil] at w
              simp only [Option.isSome_some, if_true, absN, List.cons_append, List.nil_append]
              exact ⟨w.trans (PSteps.one PStep.notFail), by intro k'; simp [absN]⟩
            | none =>
              rw [hs] at hrun
              have w := hrun.1.notIn σ k B
              simp only [List.append_nil] at w
              simp only [Option.isSome_none, Bool.false_eq_true, if_false, absN, if_true, List.cons_append, List.nil_append]
              exact w.trans (PSteps.one PStep.notOk)
          · simp at hm; subst hm; simp at h; subst h
            refine ⟨?_, (by unfold pureN; exact ⟨rfl, hhead⟩), hg, rfl⟩
            simp only [absN, Bool.false_eq_true, if_false, List.nil_append]
            exact ⟨PSteps.refl, by intro k'; simp [absN]⟩
        | time => unfold pureN at hp; exact hp.elim
    · intro t σ nb child idx n G0 st k B h hnb hch hg
      subst hnb
      simp only [callLoop] at h; simp at h
      obtain ⟨habs, hpcall⟩ := call_stale t σ child idx n hch
      obtain ⟨habs1, hpcall1⟩ := call_stale t σ child (idx + 1) n hch
      by_cases hge : n ≤ idx
      · simp [hge] at h; subst h
        have htf : ∀ k', tryFrame t σ idx n k' = [] := by intro k'; simp [tryFrame]; omega
        refine ⟨?_, hpcall, hg, rfl⟩
        simp only [htf, List.nil_append]
        exact ⟨PSteps.refl, by intro k'; rw [habs, htf]⟩
      · simp [hge] at h
        obtain ⟨key, hkey, h⟩ := Res.bind_eq_ok.mp h
        obtain ⟨rc, hrc, h⟩ := Res.bind_eq_ok.mp h
        have hlt : idx < n := by omega
        have hrc' : getRule kb key idx G0.counter = .ok (rc.1, rc.2) := by rw [hrc]
        have hstart : tryFrame t σ idx n k = [.try t σ idx n k] := by simp [tryFrame, hlt]
        split at h
        · -- the head does not unify
          rename_i hu
          have hc := ihC t σ false child (idx + 1) n G0 st k B h rfl hch hg
          refine Ref.pre ?_ hc
          rw [hstart]
          exact PSteps.one (PStep.clauseFail hkey hrc' hu)
        · cases h
        · cases h
        · rename_i σ1 hu
          split at h
          · -- a fact
            rename_i hnil
            cases h
            refine ⟨?_, hpcall1, ⟨hg.1, hg.2⟩, rfl⟩
            simp only [hstart, habs1, List.nil_append, List.cons_append]
            have := PStep.clauseOk (fo := fo) (kb := kb) (n := n) (k := k) (S := B) (o := G0.out) hkey hrc' hu
            simp only [hnil, if_true] at this
            exact PSteps.one this
          · -- a rule: its body is asked
            rename_i hnil
            obtain ⟨m, hm, h⟩ := Res.bind_eq_ok.mp h
            obtain ⟨r, hr, h⟩ := Res.bind_eq_ok.mp h
            have hpure : pureG rc.1.body = true := by
              rcases hkb key idx G0.counter rc.1 rc.2 hrc' with h1 | h1
              · exact absurd h1 hnil
              · exact h1
            have hg1 : GOK { G0 with counter := rc.2 } := ⟨hg.1, hg.2⟩
            obtain ⟨hmk, hmc, hmo, hmg, hmp⟩ := mk_steps fo kb rc.1.body σ1 { G0 with counter := rc.2 } m.1 m.2 k
              (tryFrame t σ (idx + 1) n k ++ B) hm hpure hg1
            obtain ⟨hrun, hpn, hgo, hcut⟩ := ihN m.1 m.2 r k (tryFrame t σ (idx + 1) n k ++ B) hr hmp hmg
            have hstep := PStep.clauseOk (fo := fo) (kb := kb) (n := n) (k := k) (S := B) (o := G0.out) hkey hrc' hu
            simp only [hnil, Bool.false_eq_true, if_false] at hstep
            have hpre : PSteps fo kb ⟨[.try t σ idx n k] ++ B, G0.counter, G0.out⟩
                ⟨absN m.1 k ++ (tryFrame t σ (idx + 1) n k ++ B), m.2.counter, m.2.out⟩ := by
              rw [hmc, hmo]
              exact PSteps.step hstep hmk
            by_cases hsol : r.sol.isSome = true
            · simp [hsol] at h; subst h
              obtain ⟨σ', hσ'⟩ := Option.isSome_iff_exists.mp hsol
              refine ⟨?_, (by unfold pureN; exact ⟨by simp [hcut], hpn⟩), hgo, rfl⟩
              simp only [hσ'] at hrun ⊢
              rw [hstart]
              simpa [absN, List.append_assoc] using hpre.trans hrun
            · simp [hsol] at h
              have hnone : r.sol = none := by cases hs : r.sol <;> simp_all
              rw [hnone] at hrun
              rw [hcut] at h
              have hc2 := ihC t σ false (some r.node) (idx + 1) n r.g st k B h rfl ⟨hrun.2, hpn⟩ hgo
              refine Ref.pre ?_ hc2
              rw [hstart]
              exact hpre.trans hrun.1
    · intro σ nb more head rest tail cutAcc G0 st k B h hnb hca hrest hhead htail hg
      subst hnb; subst hca
      simp only [andLoop] at h
      obtain ⟨r, hr, h⟩ := Res.bind_eq_ok.mp h
      obtain ⟨hrun, hpn, hgo, hcut⟩ := ihN head G0 r (rest.toList ++ k) B hr hhead hg
      rw [hcut] at h; simp at h
      obtain ⟨habs, hpand'⟩ := and_stale σ more r.node rest tail htail
      have hpand := fun hd hh => (and_stale σ more hd rest tail htail).2 hrest hh
      cases hrs : r.sol with
      | none =>
        simp [hrs] at h; subst h
        rw [hrs] at hrun
        refine ⟨?_, hpand _ hpn, hgo, rfl⟩
        exact ⟨hrun.1, by intro k'; rw [habs, hrun.2]⟩
      | some ss =>
        simp [hrs] at h
        rw [hrs] at hrun
        by_cases hl : rest.length = 0
        · simp [hl] at h; subst h
          have hnil : rest = .nil := by cases rest with | nil => rfl | cons a b => simp [GoalList.length] at hl
          subst hnil
          refine ⟨?_, hpand _ hpn, hgo, rfl⟩
          rw [habs]; simpa [GoalList.toList] using hrun
        · simp [hl] at h
          obtain ⟨m, hm, h⟩ := Res.bind_eq_ok.mp h
          obtain ⟨r2, hr2, h⟩ := Res.bind_eq_ok.mp h
          obtain ⟨hmk, hmc, hmo, hmg, hmp⟩ := mk_steps_spliced fo kb rest ss r.g m.1 m.2 k
            (absN r.node (rest.toList ++ k) ++ B) hm hrest hgo
          obtain ⟨hrun2, hpn2, hgo2, hcut2⟩ := ihN m.1 m.2 r2 k (absN r.node (rest.toList ++ k) ++ B) hr2 hmp hmg
          rw [hcut2] at h; simp at h
          have hpre : PSteps fo kb ⟨absN head (rest.toList ++ k) ++ B, G0.counter, G0.out⟩
              ⟨absN m.1 k ++ (absN r.node (rest.toList ++ k) ++ B), m.2.counter, m.2.out⟩ := by
            rw [hmc, hmo]
            exact hrun.trans hmk
          by_cases hsol : r2.sol.isSome = true
          · simp [hsol] at h; subst h
            obtain ⟨σ', hσ'⟩ := Option.isSome_iff_exists.mp hsol
            refine ⟨?_, (by unfold pureN; exact ⟨rfl, hrest, hpn, hpn2⟩), hgo2, rfl⟩
            simp only [hσ'] at hrun2 ⊢
            simpa [absN, List.append_assoc] using hpre.trans hrun2
          · simp [hsol] at h
            have hnone : r2.sol = none := by cases hs : r2.sol <;> simp_all
            rw [hnone] at hrun2
            have hc2 := ihA σ false more r.node rest (some r2.node) false r2.g st k B h rfl rfl hrest hpn ⟨hrun2.2, hpn2⟩ hgo2
            refine Ref.pre ?_ hc2
            exact hpre.trans hrun2.1


open Suiron

/-- what successive requests on a node return, each with the text written so far -/
def askOut (fo : FloatOps) (kb : KB) : List Nat → Node → G → List (Option Subst × List String)
  | [], _, _ => []
  | f :: fs, node, g =>
    match next fo kb f node g with
    | .ok st => (st.sol, st.g.out) :: askOut fo kb fs st.node st.g
    | _ => []

/-- REFINEMENT (cut-free fragment): the answers the engine gives request after request, and the
    text written up to each of them, are what the reference machine shows from the node's abstraction —
    same answers, same order, same multiplicity, `none` once the machine's stack is empty and for ever after. -/
theorem engine_refines_machine (fo : FloatOps) (kb : KB) (hkb : PureKB kb) :
    ∀ (fs : List Nat) (N : Node) (g : G), pureN N → GOK g →
      MRun fo kb ⟨absN N [], g.counter, g.out⟩ (askOut fo kb fs N g) := by
  intro fs
  induction fs with
  | nil => intros; exact .nil
  | cons f fs ih =>
    intro N g hp hg
    simp only [askOut]
    cases hn : next fo kb f N g with
    | ok st =>
      obtain ⟨hrun, hpn, hgo, _⟩ := (next_refines_pure fo kb hkb f).1 N g st [] [] hn hp hg
      simp only
      cases hs : st.sol with
      | some σ' =>
        rw [hs] at hrun
        simp only [List.append_nil] at hrun
        exact .ans hrun (ih st.node st.g hpn hgo)
      | none =>
        rw [hs] at hrun
        simp only [List.append_nil] at hrun
        have := ih st.node st.g hpn hgo
        rw [hrun.2 []] at this
        exact .fin hrun.1 this
    | fail => exact .nil
    | panic => exact .nil
    | oof => exact .nil

/-- the same from the query: the machine started on `[goals [q] σ0]` -/
theorem query_refines_machine (fo : FloatOps) (kb : KB) (hkb : PureKB kb) (q : Term) (σ0 : Subst) (g0 g1 : G) (N : Node)
    (hmk : mkNode fo.showF kb (.call q) σ0 g0 = .ok (N, g1)) (hg : GOK g0) (fs : List Nat) :
    MRun fo kb ⟨[.goals [.call q] σ0], g0.counter, g0.out⟩ (askOut fo kb fs N g1) := by
  obtain ⟨hsteps, hc, ho, hg1, hp⟩ := mk_steps fo kb (.call q) σ0 g0 N g1 [] [] hmk rfl hg
  have := engine_refines_machine fo kb hkb fs N g1 hp hg1
  rw [hc, ho] at this
  simp only [List.append_nil] at hsteps
  exact MRun.pre hsteps this


open Suiron

mutual
theorem renameGoal_pure : (g : Goal) → (st : RenSt) → (r : Goal × RenSt) → renameGoal g st = .ok r → pureG g = true → pureG r.1 = true
  | .call (.cplx args), st, r, h, _ => by simp only [renameGoal] at h; cases h; rfl
  | .call .nil, st, r, h, _ => by simp [renameGoal] at h
  | .call .anon, st, r, h, _ => by simp [renameGoal] at h
  | .call (.atom _), st, r, h, _ => by simp [renameGoal] at h
  | .call (.flt _), st, r, h, _ => by simp [renameGoal] at h
  | .call (.int _), st, r, h, _ => by simp [renameGoal] at h
  | .call (.var _ _), st, r, h, _ => by simp [renameGoal] at h
  | .call (.cons _ _ _ _), st, r, h, _ => by simp [renameGoal] at h
  | .call (.func _ _), st, r, h, _ => by simp [renameGoal] at h
  | .bip name (some args), st, r, h, hp => by simp only [renameGoal] at h; cases h; simpa [pureG] using hp
  | .bip name none, st, r, h, hp => by simp only [renameGoal] at h; cases h; simpa [pureG] using hp
  | .and gs, st, r, h, hp => by
    simp only [renameGoal] at h
    obtain ⟨x, hx, h⟩ := Res.bind_eq_ok.mp h
    cases h
    simp only [pureG, Bool.and_eq_true] at hp ⊢
    have := renameGoals_pure gs st x hx hp.2
    exact ⟨by rw [this.2]; exact hp.1, this.1⟩
  | .or gs, st, r, h, hp => by
    simp only [renameGoal] at h
    obtain ⟨x, hx, h⟩ := Res.bind_eq_ok.mp h
    cases h
    simp only [pureG, Bool.and_eq_true] at hp ⊢
    have := renameGoals_pure gs st x hx hp.2
    exact ⟨by rw [this.2]; exact hp.1, this.1⟩
  | .time gs, st, r, h, hp => by simp [pureG] at hp
  | .not gs, st, r, h, hp => by
    simp only [renameGoal] at h
    obtain ⟨x, hx, h⟩ := Res.bind_eq_ok.mp h
    cases h
    simp only [pureG, Bool.and_eq_true] at hp ⊢
    have := renameGoals_pure gs st x hx hp.2
    exact ⟨by rw [this.2]; exact hp.1, this.1⟩
  | .nil, st, r, h, hp => by simp [pureG] at hp
theorem renameGoals_pure : (gs : GoalList) → (st : RenSt) → (r : GoalList × RenSt) → renameGoals gs st = .ok r →
    pureGL gs = true → pureGL r.1 = true ∧ r.1.length = gs.length
  | .nil, st, r, h, _ => by simp only [renameGoals] at h; cases h; exact ⟨rfl, rfl⟩
  | .cons g gs, st, r, h, hp => by
    simp only [renameGoals] at h
    obtain ⟨x1, hx1, h⟩ := Res.bind_eq_ok.mp h
    obtain ⟨x2, hx2, h⟩ := Res.bind_eq_ok.mp h
    cases h
    simp only [pureGL, Bool.and_eq_true] at hp ⊢
    have a := renameGoal_pure g st x1 hx1 hp.1
    have b := renameGoals_pure gs x1.2 x2 hx2 hp.2
    exact ⟨⟨a, b.1⟩, by simp [GoalList.length, b.2]⟩
end

theorem renameRule_pure (r : Rule) (st : RenSt) (x : Rule × RenSt) (h : renameRule r st = .ok x)
    (hp : r.body.isNil = true ∨ pureG r.body = true) : x.1.body.isNil = true ∨ pureG x.1.body = true := by
  unfold renameRule at h
  simp only at h
  split at h
  · cases h; left; rfl
  · cases h; right; rfl
  · rename_i name args hb
    cases h; right
    rcases hp with hp | hp
    · rw [hb] at hp; cases hp
    · rw [hb] at hp; simpa [pureG] using hp
  · rename_i name hb
    cases h; right
    rcases hp with hp | hp
    · rw [hb] at hp; cases hp
    · rw [hb] at hp; simpa [pureG] using hp
  · rename_i gs hb
    obtain ⟨b, hbb, h⟩ := Res.bind_eq_ok.mp h
    cases h; right
    rcases hp with hp | hp
    · rw [hb] at hp; cases hp
    · rw [hb] at hp
      simp only [pureG, Bool.and_eq_true] at hp ⊢
      have := renameGoals_pure gs _ b hbb hp.2
      exact ⟨by rw [this.2]; exact hp.1, this.1⟩
  · rename_i gs hb
    obtain ⟨b, hbb, h⟩ := Res.bind_eq_ok.mp h
    cases h; right
    rcases hp with hp | hp
    · rw [hb] at hp; cases hp
    · rw [hb] at hp
      simp only [pureG, Bool.and_eq_true] at hp ⊢
      have := renameGoals_pure gs _ b hbb hp.2
      exact ⟨by rw [this.2]; exact hp.1, this.1⟩
  · rename_i gs hb
    rcases hp with hp | hp
    · rw [hb] at hp; cases hp
    · rw [hb] at hp; simp [pureG] at hp
  · rename_i gs hb
    obtain ⟨b, hbb, h⟩ := Res.bind_eq_ok.mp h
    cases h; right
    rcases hp with hp | hp
    · rw [hb] at hp; cases hp
    · rw [hb] at hp
      simp only [pureG, Bool.and_eq_true] at hp ⊢
      have := renameGoals_pure gs _ b hbb hp.2
      exact ⟨by rw [this.2]; exact hp.1, this.1⟩

/-- a knowledge base whose stored rules are facts or have bodies in the fragment hands out only such clauses -/
theorem pureKB_of_rules (kb : KB)
    (h : ∀ key rs, kb.get key = some rs → ∀ r ∈ rs, r.body.isNil = true ∨ pureG r.body = true) : PureKB kb := by
  intro key idx c rule c' hg
  unfold getRule at hg
  split at hg
  · cases hg
  · rename_i rs hrs
    split at hg
    · cases hg
    · rename_i r hr
      obtain ⟨x, hx, hg⟩ := Res.bind_eq_ok.mp hg
      cases hg
      exact renameRule_pure r _ x hx (h key rs hrs r (List.mem_of_getElem? hr))

end Suiron.Spec
