/-
  C20 beyond tokens: a STRUCTURED text as the left operand of `=`.

  `check_infix` looks for ` = ` (or `<`, `>`, `==`, ...) after a blank; when it meets a `(` or a `"` it skips to the NEXT `)` / `"`,
  not the matching one.  For a text without `<`, `>`, `=` and quotes whose every `(` is followed by a `)` later in the text
  (`parenNext`; then the skipping always ends inside the text, `skipAfter_of_parenNext` — true of every text with closed
  parentheses), the scanner finds nothing inside the text and finds the ` = ` that follows it (`checkInfix_struct`); the
  operands of the subgoal are then parsed by `parse_term` (`parseSubgoal_struct_unify`).
-/
import SuironVerif.Lemmas.ParseToken
import SuironVerif.Lemmas.ParseListTail
namespace Suiron.Parse
open Suiron

/-- is the scanner of `check_infix` skipping to a `)` after this text (`m` = it was before) -/
def skipAfter : Text → Bool → Bool
  | [], m => m
  | c :: rest, true => skipAfter rest (!(c == ')'))
  | c :: rest, false => skipAfter rest (c == '(')

/-- every `(` has a `)` somewhere after it -/
def parenNext : Text → Bool
  | [] => true
  | c :: rest => (!(c == '(') || rest.contains ')') && parenNext rest

/-- no character of a comparison or unification infix, and no quote -/
def infixFree (T : Text) : Bool := T.all fun c => !(c == '<') && !(c == '>') && !(c == '=') && !(c == '"')

def modeOf : Bool → Option Char
  | true => some ')'
  | false => none

theorem infixLoop_struct (len : Nat) : ∀ (pre rest : Text) (i : Nat) (prev : Char) (m : Bool),
    infixFree pre = true → parenNext pre = true → i + pre.length + 2 < len →
    ∃ prev', infixLoop len (pre ++ rest) i prev (modeOf m) = infixLoop len rest (i + pre.length) prev' (modeOf (skipAfter pre m)) := by
  intro pre
  induction pre with
  | nil => intro rest i prev m _ _ _; exact ⟨prev, by simp [skipAfter]⟩
  | cons c pre ih =>
    intro rest i prev m hfree hnext hlen
    simp only [infixFree, List.all_cons, Bool.and_eq_true, Bool.not_eq_true', beq_eq_false_iff_ne, ne_eq] at hfree
    obtain ⟨⟨⟨⟨h1, h2⟩, h3⟩, h4⟩, hrest⟩ := hfree
    simp only [parenNext, Bool.and_eq_true, Bool.or_eq_true, Bool.not_eq_true'] at hnext
    have hlen' : (i + 1) + pre.length + 2 < len := by simp at hlen; omega
    have hidx : i + 1 + pre.length = i + (c :: pre).length := by simp; omega
    cases m with
    | true =>
      -- skipping: leave at `)`
      by_cases hc : (c == ')') = true
      · obtain ⟨p, hp⟩ := ih rest (i + 1) prev false (by simpa [infixFree] using hrest) hnext.2 hlen'
        refine ⟨p, ?_⟩
        simp only [List.cons_append, modeOf, infixLoop, hc, if_true, skipAfter, Bool.not_true]
        rw [← hidx]; exact hp
      · have hc' : (c == ')') = false := by simpa using hc
        obtain ⟨p, hp⟩ := ih rest (i + 1) prev true (by simpa [infixFree] using hrest) hnext.2 hlen'
        refine ⟨p, ?_⟩
        simp only [List.cons_append, modeOf, infixLoop, hc', Bool.false_eq_true, if_false, skipAfter, Bool.not_false]
        rw [← hidx]; exact hp
    | false =>
      have e4 : (c == '"') = false := by simpa using h4
      by_cases hc : (c == '(') = true
      · -- a parenthesis: skip to the next `)`, which lies inside the text
        have hcont : (pre ++ rest).contains ')' = true := by
          rcases hnext.1 with h | h
          · rw [hc] at h; cases h
          · simp only [List.contains_eq_mem, List.mem_append, decide_eq_true_eq] at h ⊢
            exact Or.inl h
        obtain ⟨p, hp⟩ := ih rest (i + 1) c true (by simpa [infixFree] using hrest) hnext.2 hlen'
        refine ⟨p, ?_⟩
        simp only [List.cons_append, modeOf, infixLoop, e4, Bool.false_eq_true, if_false, hc, if_true, hcont, skipAfter]
        rw [← hidx]; exact hp
      · have hc' : (c == '(') = false := by simpa using hc
        obtain ⟨p, hp⟩ := ih rest (i + 1) c false (by simpa [infixFree] using hrest) hnext.2 hlen'
        refine ⟨p, ?_⟩
        have e1 : (c == '<') = false := by simpa using h1
        have e2 : (c == '>') = false := by simpa using h2
        have e3 : (c == '=') = false := by simpa using h3
        have hge : ¬ (i + 2 ≥ len) := by simp at hlen; omega
        simp only [List.cons_append, modeOf, infixLoop, e4, Bool.false_eq_true, if_false, hc', skipAfter]
        by_cases hp2 : (prev != ' ') = true
        · simp only [hp2, if_true]; rw [← hidx]; exact hp
        · simp only [hp2, Bool.false_eq_true, if_false, hge, e1, e2, e3]; rw [← hidx]; exact hp

/-- when every `(` has a `)` after it, the skipping always ends inside the text -/
theorem skipAfter_of_parenNext : ∀ T : Text, parenNext T = true →
    skipAfter T false = false ∧ (T.contains ')' = true → skipAfter T true = false)
  | [], _ => ⟨rfl, fun h => by simp at h⟩
  | c :: rest, h => by
    simp only [parenNext, Bool.and_eq_true, Bool.or_eq_true, Bool.not_eq_true'] at h
    obtain ⟨ih1, ih2⟩ := skipAfter_of_parenNext rest h.2
    refine ⟨?_, ?_⟩
    · simp only [skipAfter]
      by_cases hc : (c == '(') = true
      · rw [hc]
        rcases h.1 with h1 | h1
        · rw [hc] at h1; cases h1
        · exact ih2 h1
      · have : (c == '(') = false := by simpa using hc
        rw [this]; exact ih1
    · intro hcont
      simp only [skipAfter]
      by_cases hc : (c == ')') = true
      · simp only [hc, Bool.not_true]; exact ih1
      · have hc' : (c == ')') = false := by simpa using hc
        simp only [hc', Bool.not_false]
        apply ih2
        simp only [List.contains_cons, Bool.or_eq_true] at hcont
        rcases hcont with e | e
        · have : c = ')' := by
            have := e; simp at this; first | exact this | exact this.symm
          rw [this] at hc'; simp at hc'
        · exact e

/-- the scanner finds the ` = ` that follows the text, and nothing inside it -/
theorem checkInfix_struct {T rhs : Text} (hfree : infixFree T = true) (hnext : parenNext T = true) (hr : rhs ≠ []) :
    checkInfix (T ++ ' ' :: '=' :: ' ' :: rhs) = (.unify, T.length + 1) := by
  have hskip := (skipAfter_of_parenNext T hnext).1
  unfold checkInfix
  have hl : 0 + T.length + 2 < (T ++ ' ' :: '=' :: ' ' :: rhs).length := by simp
  obtain ⟨prev', h⟩ := infixLoop_struct (T ++ ' ' :: '=' :: ' ' :: rhs).length T (' ' :: '=' :: ' ' :: rhs) 0 '#' false hfree hnext hl
  simp only [modeOf, hskip] at h
  rw [h]
  have hlen : ¬ (0 + T.length + 1 + 2 ≥ (T ++ ' ' :: '=' :: ' ' :: rhs).length) := by
    cases rhs with
    | nil => exact absurd rfl hr
    | cons a b => simp; omega
  have hlen0 : ¬ (0 + T.length + 2 ≥ (T ++ ' ' :: '=' :: ' ' :: rhs).length) := by simp
  -- the blank, whatever came before it
  have hblank : infixLoop (T ++ ' ' :: '=' :: ' ' :: rhs).length (' ' :: '=' :: ' ' :: rhs) (0 + T.length) prev' none =
      infixLoop (T ++ ' ' :: '=' :: ' ' :: rhs).length ('=' :: ' ' :: rhs) (0 + T.length + 1) ' ' none := by
    by_cases hp : (prev' != ' ') = true
    · simp only [infixLoop, show ((' ' : Char) == '"') = false from by decide, show ((' ' : Char) == '(') = false from by decide,
        Bool.false_eq_true, if_false, hp, if_true]
    · simp only [infixLoop, show ((' ' : Char) == '"') = false from by decide, show ((' ' : Char) == '(') = false from by decide,
        Bool.false_eq_true, if_false, hp, hlen0, show ((' ' : Char) == '<') = false from by decide,
        show ((' ' : Char) == '>') = false from by decide, show ((' ' : Char) == '=') = false from by decide]
  rw [hblank]
  simp only [infixLoop, show (('=' : Char) == '"') = false from by decide, show (('=' : Char) == '(') = false from by decide,
    Bool.false_eq_true, if_false, show ((' ' : Char) != ' ') = false from by decide, hlen,
    show (('=' : Char) == '<') = false from by decide, show (('=' : Char) == '>') = false from by decide,
    show (('=' : Char) == '=') = true from by decide, List.head?_cons, Option.getD_some,
    show ((' ' : Char) == '=') = false from by decide, show ((' ' : Char) == ' ') = true from by decide, if_true]
  simp

/-- C20, A STRUCTURED TEXT AS THE LEFT OPERAND OF `=`: the subgoal `T = R` has `parse_term T` as its left operand -/
theorem parseSubgoal_struct_unify (po : POps) (f : Nat) {T rhs : Text} (htrim : trim T = T) (hne : T ≠ [])
    (hfree : infixFree T = true) (hnext : parenNext T = true)
    (hrtrim : trim rhs = rhs) (hr : rhs ≠ []) :
    parseSubgoal po (f + 1) (T ++ ' ' :: '=' :: ' ' :: rhs) =
      (parseTerm po f T).bind fun l => (parseTerm po f rhs).bind fun r =>
        .ok (.bip "unify" (some (.cons l (.cons r .nil)))) := by
  have htr : trim (T ++ ' ' :: '=' :: ' ' :: rhs) = T ++ ' ' :: '=' :: ' ' :: rhs := by
    cases hT : T with
    | nil => exact absurd hT hne
    | cons a t =>
      apply trim_of_ends (by simp)
      · intro b hb; simp at hb; subst hb; exact trim_head_nonws htrim a (by rw [hT]; rfl)
      · intro b hb
        have : (a :: t ++ ' ' :: '=' :: ' ' :: rhs) = (a :: t ++ [' ', '=', ' ']) ++ rhs := by simp
        rw [this, List.getLast?_append] at hb
        cases hl : rhs.getLast? with
        | none => simp [List.getLast?_eq_none_iff] at hl; exact absurd hl hr
        | some z =>
          rw [hl] at hb; simp at hb; subst hb
          exact trim_last_nonws hrtrim z hl
  simp only [parseSubgoal, htr, checkInfix_struct hfree hnext hr]
  have hne' : (T ++ ' ' :: '=' :: ' ' :: rhs).isEmpty = false := by cases T <;> rfl
  have hmem : ' ' ∈ (T ++ ' ' :: '=' :: ' ' :: rhs) := by simp
  have hkw : ∀ k : String, ' ' ∉ k.toList → ((T ++ ' ' :: '=' :: ' ' :: rhs) == txt k) = false := by
    intro k hk
    cases hb : ((T ++ ' ' :: '=' :: ' ' :: rhs) == txt k) with
    | false => rfl
    | true =>
      have : (T ++ ' ' :: '=' :: ' ' :: rhs) = txt k := by simpa using hb
      rw [this] at hmem; exact absurd hmem hk
  simp only [hne', Bool.false_eq_true, if_false, hkw "!" (by decide), hkw "fail" (by decide), hkw "nl" (by decide),
    Bool.or_false, show (Infix.unify != Infix.none) = true from by decide, if_true]
  have hs1 : slice (T ++ ' ' :: '=' :: ' ' :: rhs) 0 (T.length + 1) = .ok (T ++ [' ']) := by
    unfold slice
    have : (0 ≤ T.length + 1 ∧ T.length + 1 ≤ (T ++ ' ' :: '=' :: ' ' :: rhs).length) := by simp
    simp only [this, and_self, if_true, List.drop_zero]
    rw [show T ++ ' ' :: '=' :: ' ' :: rhs = (T ++ [' ']) ++ ('=' :: ' ' :: rhs) from by simp]
    rw [List.take_left' (by simp)]
  have hs2 : slice (T ++ ' ' :: '=' :: ' ' :: rhs) (T.length + 1 + 2) (T ++ ' ' :: '=' :: ' ' :: rhs).length = .ok rhs := by
    unfold slice
    have : (T.length + 1 + 2 ≤ (T ++ ' ' :: '=' :: ' ' :: rhs).length ∧ (T ++ ' ' :: '=' :: ' ' :: rhs).length ≤ (T ++ ' ' :: '=' :: ' ' :: rhs).length) := by simp; omega
    simp only [this, and_self, if_true, List.take_length]
    rw [show T ++ ' ' :: '=' :: ' ' :: rhs = (T ++ [' ', '=', ' ']) ++ rhs from by simp]
    rw [List.drop_left' (by simp)]
  simp only [hs1, hs2, Res.bind_ok]
  rw [parseTerm_congr_trim po f (a := T ++ [' ']) (b := T) (by rw [trim_ws_suffix])]
  cases parseTerm po f T <;> simp [Res.bind]
  cases parseTerm po f rhs <;> simp [makeGoal, txt, str, bipNames, TermList.ofList]

/-! ### the comparison infixes -/

/-- the six infixes of a subgoal: the text of the operator, what `check_infix` calls it, the name of the built-in predicate -/
inductive Cmp where
  | unify | equal | lt | le | gt | ge
  deriving DecidableEq

def Cmp.text : Cmp → Text
  | .unify => ['='] | .equal => ['=', '='] | .lt => ['<'] | .le => ['<', '='] | .gt => ['>'] | .ge => ['>', '=']
def Cmp.kind : Cmp → Infix
  | .unify => .unify | .equal => .equal | .lt => .lt | .le => .le | .gt => .gt | .ge => .ge
def Cmp.name : Cmp → String
  | .unify => "unify" | .equal => "equal" | .lt => "less_than" | .le => "less_than_or_equal" | .gt => "greater_than"
  | .ge => "greater_than_or_equal"

/-- the scanner finds the infix that follows the text, and nothing inside the text -/
theorem checkInfix_struct_cmp (op : Cmp) {T rhs : Text} (hfree : infixFree T = true) (hnext : parenNext T = true) (hr : rhs ≠ []) :
    checkInfix (T ++ ' ' :: op.text ++ ' ' :: rhs) = (op.kind, T.length + 1) := by
  have hskip := (skipAfter_of_parenNext T hnext).1
  obtain ⟨a, b, hrhs⟩ : ∃ a b, rhs = a :: b := by
    cases rhs with
    | nil => exact absurd rfl hr
    | cons a b => exact ⟨a, b, rfl⟩
  unfold checkInfix
  generalize hL : (T ++ ' ' :: op.text ++ ' ' :: rhs).length = L
  have hLge : T.length + 4 ≤ L := by
    rw [← hL, hrhs]; cases op <;> simp [Cmp.text] <;> omega
  have hl : 0 + T.length + 2 < L := by omega
  have hshape : T ++ ' ' :: op.text ++ ' ' :: rhs = T ++ (' ' :: (op.text ++ ' ' :: rhs)) := by simp
  rw [hshape]
  obtain ⟨prev', h⟩ := infixLoop_struct L T (' ' :: (op.text ++ ' ' :: rhs)) 0 '#' false hfree hnext hl
  simp only [modeOf, hskip] at h
  rw [h]
  have hlen : ¬ (0 + T.length + 1 + 2 ≥ L) := by omega
  have hlen0 : ¬ (0 + T.length + 2 ≥ L) := by omega
  have hblank : infixLoop L (' ' :: (op.text ++ ' ' :: rhs)) (0 + T.length) prev' none =
      infixLoop L (op.text ++ ' ' :: rhs) (0 + T.length + 1) ' ' none := by
    by_cases hp : (prev' != ' ') = true
    · simp only [infixLoop, show ((' ' : Char) == '"') = false from by decide, show ((' ' : Char) == '(') = false from by decide,
        Bool.false_eq_true, if_false, hp, if_true]
    · simp only [infixLoop, show ((' ' : Char) == '"') = false from by decide, show ((' ' : Char) == '(') = false from by decide,
        Bool.false_eq_true, if_false, hp, hlen0, show ((' ' : Char) == '<') = false from by decide,
        show ((' ' : Char) == '>') = false from by decide, show ((' ' : Char) == '=') = false from by decide]
  rw [hblank]
  cases op <;>
    simp [Cmp.text, Cmp.kind, infixLoop, hlen, show ((' ' : Char) != ' ') = false from by decide] <;> omega

/-- C20, A STRUCTURED TEXT AS THE LEFT OPERAND OF ANY INFIX (`=`, `==`, `<`, `<=`, `>`, `>=`): the subgoal `T op R` is the built-in
    predicate of the operator applied to `parse_term T` and `parse_term R` -/
theorem parseSubgoal_struct_cmp (po : POps) (f : Nat) (op : Cmp) {T rhs : Text} (htrim : trim T = T) (hne : T ≠ [])
    (hfree : infixFree T = true) (hnext : parenNext T = true) (hrtrim : trim rhs = rhs) (hr : rhs ≠ []) :
    parseSubgoal po (f + 1) (T ++ ' ' :: op.text ++ ' ' :: rhs) =
      (parseTerm po f T).bind fun l => (parseTerm po f rhs).bind fun r =>
        .ok (.bip op.name (some (.cons l (.cons r .nil)))) := by
  generalize hS : T ++ ' ' :: op.text ++ ' ' :: rhs = S
  have hSlen : S.length = T.length + 1 + op.text.length + 1 + rhs.length := by rw [← hS]; simp; omega
  have hoplen : op.text.length = 1 ∨ op.text.length = 2 := by cases op <;> simp [Cmp.text]
  have htr : trim S = S := by
    rw [← hS]
    cases hT : T with
    | nil => exact absurd hT hne
    | cons a t =>
      apply trim_of_ends (by simp)
      · intro b hb; simp at hb; subst hb; exact trim_head_nonws htrim a (by rw [hT]; rfl)
      · intro b hb
        have : (a :: t ++ ' ' :: op.text ++ ' ' :: rhs) = (a :: t ++ ' ' :: op.text ++ [' ']) ++ rhs := by simp
        rw [this, List.getLast?_append] at hb
        cases hl : rhs.getLast? with
        | none => simp [List.getLast?_eq_none_iff] at hl; exact absurd hl hr
        | some z =>
          rw [hl] at hb; simp at hb; subst hb
          exact trim_last_nonws hrtrim z hl
  have hci : checkInfix S = (op.kind, T.length + 1) := by rw [← hS]; exact checkInfix_struct_cmp op hfree hnext hr
  simp only [parseSubgoal, htr, hci]
  have hne' : S.isEmpty = false := by rw [← hS]; cases T <;> rfl
  have hmem : ' ' ∈ S := by rw [← hS]; simp
  have hkw : ∀ k : String, ' ' ∉ k.toList → (S == txt k) = false := by
    intro k hk
    cases hb : (S == txt k) with
    | false => rfl
    | true =>
      have : S = txt k := by simpa using hb
      rw [this] at hmem; exact absurd hmem hk
  have hkind : (op.kind != Infix.none) = true := by cases op <;> decide
  simp only [hne', Bool.false_eq_true, if_false, hkw "!" (by decide), hkw "fail" (by decide), hkw "nl" (by decide),
    Bool.or_false, hkind, if_true]
  have hs1 : slice S 0 (T.length + 1) = .ok (T ++ [' ']) := by
    unfold slice
    have : (0 ≤ T.length + 1 ∧ T.length + 1 ≤ S.length) := by omega
    simp only [this, and_self, if_true, List.drop_zero]
    rw [← hS, show T ++ ' ' :: op.text ++ ' ' :: rhs = (T ++ [' ']) ++ (op.text ++ ' ' :: rhs) from by simp]
    rw [List.take_left' (by simp)]
  -- the right operand: what follows the two characters after the blank (the operator, and its blank when it has one character)
  have hs2 : ∃ R', slice S (T.length + 1 + 2) S.length = .ok R' ∧ trim R' = rhs := by
    unfold slice
    have : (T.length + 1 + 2 ≤ S.length ∧ S.length ≤ S.length) := by
      obtain ⟨a, b, hrhs⟩ : ∃ a b, rhs = a :: b := by
        cases rhs with
        | nil => exact absurd rfl hr
        | cons a b => exact ⟨a, b, rfl⟩
      rw [hSlen, hrhs]; simp; omega
    simp only [this, and_self, if_true, List.take_length]
    rw [← hS]
    cases op
    all_goals simp only [Cmp.text]
    · exact ⟨rhs, by rw [show T ++ ' ' :: ['='] ++ ' ' :: rhs = (T ++ [' ', '=', ' ']) ++ rhs from by simp, List.drop_left' (by simp)], hrtrim⟩
    · refine ⟨' ' :: rhs, by rw [show T ++ ' ' :: ['=', '='] ++ ' ' :: rhs = (T ++ [' ', '=', '=']) ++ (' ' :: rhs) from by simp, List.drop_left' (by simp)], ?_⟩
      rw [show (' ' :: rhs) = [' '] ++ rhs from rfl, trim_ws_prefix [' '] (by intro c hc; simp at hc; subst hc; decide), hrtrim]
    · exact ⟨rhs, by rw [show T ++ ' ' :: ['<'] ++ ' ' :: rhs = (T ++ [' ', '<', ' ']) ++ rhs from by simp, List.drop_left' (by simp)], hrtrim⟩
    · refine ⟨' ' :: rhs, by rw [show T ++ ' ' :: ['<', '='] ++ ' ' :: rhs = (T ++ [' ', '<', '=']) ++ (' ' :: rhs) from by simp, List.drop_left' (by simp)], ?_⟩
      rw [show (' ' :: rhs) = [' '] ++ rhs from rfl, trim_ws_prefix [' '] (by intro c hc; simp at hc; subst hc; decide), hrtrim]
    · exact ⟨rhs, by rw [show T ++ ' ' :: ['>'] ++ ' ' :: rhs = (T ++ [' ', '>', ' ']) ++ rhs from by simp, List.drop_left' (by simp)], hrtrim⟩
    · refine ⟨' ' :: rhs, by rw [show T ++ ' ' :: ['>', '='] ++ ' ' :: rhs = (T ++ [' ', '>', '=']) ++ (' ' :: rhs) from by simp, List.drop_left' (by simp)], ?_⟩
      rw [show (' ' :: rhs) = [' '] ++ rhs from rfl, trim_ws_prefix [' '] (by intro c hc; simp at hc; subst hc; decide), hrtrim]
  obtain ⟨R', hs2', htR⟩ := hs2
  simp only [hs1, hs2', Res.bind_ok]
  rw [parseTerm_congr_trim po f (a := T ++ [' ']) (b := T) (by rw [trim_ws_suffix]),
    parseTerm_congr_trim po f (a := R') (b := rhs) (by rw [htR, hrtrim])]
  cases parseTerm po f T <;> simp [Res.bind]
  cases parseTerm po f rhs <;> cases op <;> simp [Cmp.kind, Cmp.name, makeGoal, txt, str, bipNames, TermList.ofList]

end Suiron.Parse
