/-
  C20 / C19 beyond tokens: LISTS WITH A TAIL VARIABLE.

  `parse_linked_list [T1, ..., Tn | $V]` links `parse_term Tn`, ..., `parse_term T1` in front of the node that holds the tail
  variable.  The blank between the bar and the last element is collected into the segment of that element, at its end;
  `listLoop_ws`: a blank at the end of the segment makes no difference to anything the loop does (every use of the segment
  trims it first).
-/
import SuironVerif.Lemmas.ParseListMulti
namespace Suiron.Parse
open Suiron

theorem dropWhile_append_ws (p : Char → Bool) : ∀ (x z : Text),
    (x ++ z).dropWhile p = if x.dropWhile p = [] then z.dropWhile p else x.dropWhile p ++ z
  | [], z => by simp
  | a :: x, z => by
    by_cases h : p a = true
    · simp only [List.cons_append, List.dropWhile, h, if_true]
      exact dropWhile_append_ws p x z
    · have h' : p a = false := by simpa using h
      simp [List.dropWhile, h']

/-- a blank at the end is trimmed away -/
theorem trim_ws_suffix (x : Text) : trim (x ++ [' ']) = trim x := by
  unfold trim trimStart
  rw [dropWhile_append_ws]
  by_cases h : x.dropWhile isWs = []
  · simp only [h, if_true]
    have : ([' '] : Text).dropWhile isWs = [] := by decide
    rw [this]
  · simp only [h, if_false]
    unfold trimEnd
    congr 1
    rw [List.reverse_append]
    have : ([' '] : Text).reverse = [' '] := rfl
    rw [this]
    simp only [List.cons_append, List.nil_append, List.dropWhile, show isWs ' ' = true from by decide, if_true]

/-- the state with one more blank at the end of the segment -/
def addWs (st : ListSt) : ListSt := { st with seg := st.seg ++ [' '] }

/-- one step from the two states: both go on with the same relation, or give the very same result -/
theorem listStep_ws (po : POps) (pt : Text → Res Term) (c : Char) (esc : Bool) (st : ListSt) :
    (∃ st', listStep po pt c esc st = .ok st' ∧ listStep po pt c esc (addWs st) = .ok (addWs st')) ∨
    listStep po pt c esc (addWs st) = listStep po pt c esc st := by
  obtain ⟨vb, oq, nq, rd, sq, l, sg⟩ := st
  simp only [listStep, addWs, ListSt.push]
  cases oq with
  | true =>
    simp only [if_true]
    by_cases h1 : (c == '"' && !esc) = true
    · simp only [h1, if_true]; exact Or.inl ⟨_, rfl, rfl⟩
    · simp only [h1, if_false]; exact Or.inl ⟨_, rfl, rfl⟩
  | false =>
    simp only [Bool.false_eq_true, if_false]
    by_cases h2 : (!(rd == 0 && sq == 0) && (c == '"' && !esc)) = true
    · simp only [h2, if_true]; exact Or.inl ⟨_, rfl, rfl⟩
    simp only [h2, if_false]
    by_cases h3 : (c == ']' && !esc) = true
    · simp only [h3, if_true]; exact Or.inl ⟨_, rfl, rfl⟩
    simp only [h3, if_false]
    by_cases h4 : (c == '[' && !esc) = true
    · simp only [h4, if_true]; exact Or.inl ⟨_, rfl, rfl⟩
    simp only [h4, if_false]
    by_cases h5 : (c == ')' && !esc) = true
    · simp only [h5, if_true]; exact Or.inl ⟨_, rfl, rfl⟩
    simp only [h5, if_false]
    by_cases h6 : (c == '(' && !esc) = true
    · simp only [h6, if_true]; exact Or.inl ⟨_, rfl, rfl⟩
    simp only [h6, if_false]
    by_cases h7 : (rd == 0 && sq == 0) = true
    · simp only [h7, if_true, listStepTop, ListSt.push]
      by_cases h8 : (c == '"' && !esc) = true
      · simp only [h8, if_true]; exact Or.inl ⟨_, rfl, rfl⟩
      simp only [h8, if_false]
      by_cases h9 : (c == ',' && !esc) = true
      · simp only [h9, if_true]
        right
        simp only [Bool.false_eq_true, if_false, if_true, listComma, trim_ws_suffix]
      simp only [h9, if_false]
      by_cases h10 : (c == '|' && !esc) = true
      · simp only [h10, if_true]
        right
        simp only [Bool.false_eq_true, if_false, if_true, listBar, trim_ws_suffix]
      simp only [h10, if_false]
      exact Or.inl ⟨_, rfl, rfl⟩
    · simp only [h7, if_false]; exact Or.inl ⟨_, rfl, rfl⟩

/-- a blank at the end of the segment makes no difference to the loop -/
theorem listLoop_ws (po : POps) (pt : Text → Res Term) : ∀ (text : Text) (st : ListSt),
    listLoop po pt text (addWs st) = listLoop po pt text st
  | [], _ => rfl
  | c :: rest, st => by
    rw [listLoop, listLoop]
    rcases listStep_ws po pt c (rest.head? == some '\\') st with ⟨st', h1, h2⟩ | h
    · rw [h1, h2]
      simp only [Res.bind_ok]
      cases rest with
      | nil =>
        simp only
        unfold listFinish
        simp only [addWs, trim_ws_suffix]
      | cons a t =>
        simp only
        exact listLoop_ws po pt (a :: t) st'
    · rw [h]

/-- the list parser on `T1, ..., Tn | V` read from the right: the variable, the bar, then the elements -/
theorem listLoop_tail (po : POps) (f : Nat) (V : Text) (v : Term) (hV : ElemOK V) (hq : qCount V ⟨0, 0, false⟩ = 0)
    (hv : makeLogicVar po V = .ok v) (ras : List Text) (hne : ras ≠ []) (hok : ∀ a ∈ ras, ElemOK a) :
    listLoop po (parseTerm po (f + 1)) (V.reverse ++ ' ' :: '|' :: ' ' :: revJoin ras) {} =
      parseR (parseTerm po (f + 1)) ras (.cons v Term.empty 1 true) := by
  have hR : revJoin ras ≠ [] := revJoin_ne_nil ras hne (fun x hx => (hok x hx).arg.nonempty)
  obtain ⟨st1, h1, hs1, hq1, hl1, hv1, hd1⟩ := listLoop_pre po (parseTerm po (f + 1)) V (' ' :: '|' :: ' ' :: revJoin ras) (by simp)
    (by simp) hV.arg.closed hV.arg.noBackslash hV.arg.noTopComma hV.noBar V.reverse [] {} (by simp) rfl (by simp [ListSt.dp, bScan])
    (by simp [qCount])
  have hd1' : st1.dp = ⟨0, 0, false⟩ := by
    rw [hd1]
    have := bScan_undoes V false
    rw [hV.arg.closed] at this
    simpa using this
  rw [h1]
  -- the blank in front of the variable
  obtain ⟨st2, h2, hs2, hd2, hq2, hl2, hv2⟩ := listStep_struct po (parseTerm po (f + 1)) ' ' st1 (by simp) (by simp)
  have hd2' : st2.dp = ⟨0, 0, false⟩ := by rw [hd2, hd1']; simp [bStep]
  have hr2 : st2.round = 0 := congrArg Dp.round hd2'
  have hsq2 : st2.square = 0 := congrArg Dp.square hd2'
  have ho2 : st2.openQuote = false := congrArg Dp.oq hd2'
  have hq2' : st2.numQuotes = 0 := by rw [hq2, hq1, hq]; simp
  rw [listLoop]
  simp only [List.head?_cons, show ((some '|' : Option Char) == some '\\') = false from by decide, h2, Res.bind_ok]
  -- the bar: the variable is made and linked as the tail
  rw [listLoop]
  simp only [List.head?_cons, show ((some ' ' : Option Char) == some '\\') = false from by decide]
  have htw : trim (' ' :: V) = V := by
    rw [show (' ' :: V) = [' '] ++ V from rfl, trim_ws_prefix [' '] (by intro c hc; simp at hc; subst hc; decide), hV.arg.trimmed]
  have hnE : V.isEmpty = false := by
    cases V with
    | nil => exact absurd rfl hV.arg.nonempty
    | cons c t => rfl
  have hbarStep : listStep po (parseTerm po (f + 1)) '|' false st2 =
      .ok { st2 with list := .cons v Term.empty 1 true, vbar := true, seg := [] } := by
    unfold listStep
    simp only [ho2, hr2, hsq2, Bool.false_eq_true, if_false, Bool.not_false, Bool.and_true,
      show (('|' : Char) == '"') = false from by decide, show (('|' : Char) == ']') = false from by decide,
      show (('|' : Char) == '[') = false from by decide, show (('|' : Char) == ')') = false from by decide,
      show (('|' : Char) == '(') = false from by decide, show ((0 : Int) == 0 && (0 : Int) == 0) = true from rfl,
      Bool.not_true, Bool.false_and, if_true]
    unfold listStepTop listBar
    have hvb : st2.vbar = false := by rw [hv2, hv1]
    have hl : st2.list = Term.empty := by rw [hl2, hl1]
    simp only [Bool.not_false, Bool.and_true, show (('|' : Char) == '"') = false from by decide,
      show (('|' : Char) == ',') = false from by decide, show (('|' : Char) == '|') = true from by decide,
      Bool.false_eq_true, if_false, if_true, hvb, hs2, hs1, htw, hnE, hv, Res.bind_ok, hl, linkFront, Term.empty,
      ho2, hr2, hsq2, Nat.zero_add]
  rw [hbarStep]
  simp only [Res.bind_ok]
  -- the blank after the last element
  rw [listLoop]
  have hescR : ((revJoin ras).head? == some '\\') = false := by
    cases ras with
    | nil => exact absurd rfl hne
    | cons b rest =>
      have hbo := hok b (by simp)
      rw [revJoin_head (b :: rest) b rest rfl hbo.arg.nonempty]
      cases hh : b.reverse.head? with
      | none => rfl
      | some x =>
        have : x ∈ b := by
          have : x ∈ b.reverse := by cases hr : b.reverse with
            | nil => rw [hr] at hh; cases hh
            | cons c t => rw [hr] at hh; simp at hh; subst hh; simp
          simpa using this
        have := hbo.arg.noBackslash x this
        simpa using this
  simp only [hescR]
  generalize hst3 : ({ st2 with list := Term.cons v Term.empty 1 true, vbar := true, seg := [] } : ListSt) = st3
  have hb3 : Bnd st3 := by subst hst3; exact ⟨rfl, hq2', hr2, hsq2, ho2⟩
  have hl3 : st3.list = .cons v Term.empty 1 true := by subst hst3; rfl
  obtain ⟨st4, h4, hs4, hd4, hq4, hl4, hv4⟩ := listStep_struct po (parseTerm po (f + 1)) ' ' st3 (by simp) (by simp)
  have hst4 : st4 = addWs st3 := by
    have hdp : st4.dp = st3.dp := by rw [hd4]; simp [bStep, ListSt.dp, hb3.oq]
    have hq4' : st4.numQuotes = st3.numQuotes := by rw [hq4]; simp
    obtain ⟨a1, a2, a3, a4, a5, a6, a7⟩ := st4
    obtain ⟨b1, b2, b3, b4, b5, b6, b7⟩ := st3
    simp only [ListSt.dp, Dp.mk.injEq] at hdp
    simp only at hs4 hq4' hl4 hv4 hb3
    have hb7 : b7 = [] := hb3.seg
    simp only [addWs, ListSt.mk.injEq]
    refine ⟨hv4, hdp.2.2, hq4', hdp.1, hdp.2.1, hl4, ?_⟩
    rw [hs4, hb7]; rfl
  rw [h4]
  simp only [Res.bind_ok]
  cases hRR : revJoin ras with
  | nil => exact absurd hRR hR
  | cons c0 t0 =>
    simp only
    rw [← hRR, hst4, listLoop_ws, listLoop_multi po f ras hne hok st3 hb3, hl3]

/-- the elements and the tail, written out -/
theorem tail_text_reverse (as : List Text) (V : Text) :
    (joinArgs as ++ ' ' :: '|' :: ' ' :: V).reverse = V.reverse ++ ' ' :: '|' :: ' ' :: revJoin as.reverse := by
  have hrev : (joinArgs as).reverse = revJoin as.reverse := by
    have := revJoin_reverse as.reverse
    rwa [List.reverse_reverse] at this
  rw [List.reverse_append, hrev]
  simp

/-- C20 / C19, A LIST WITH A TAIL VARIABLE: `parse_linked_list [T1, ..., Tn | V]` is `parse_term Tn`, ..., `parse_term T1`
    linked in front of the node of the tail variable -/
theorem parseLinkedList_tail (po : POps) (f : Nat) (as : List Text) (V : Text) (v : Term) (hne : as ≠ [])
    (hok : ∀ a ∈ as, ElemOK a) (hV : ElemOK V) (hq : qCount V ⟨0, 0, false⟩ = 0) (hv : makeLogicVar po V = .ok v) :
    parseLinkedList po (f + 2) ('[' :: (joinArgs as ++ ' ' :: '|' :: ' ' :: V) ++ [']']) =
      parseR (parseTerm po (f + 1)) as.reverse (.cons v Term.empty 1 true) := by
  generalize hT : joinArgs as ++ ' ' :: '|' :: ' ' :: V = T
  have hj : T ≠ [] := by rw [← hT]; simp
  have hb : ('[' :: T ++ [']']) = '[' :: (T ++ [']']) := rfl
  have htr : trim ('[' :: (T ++ [']'])) = '[' :: (T ++ [']']) := by
    apply trim_of_ends (by simp)
    · intro a ha; simp at ha; subst ha; decide
    · intro a ha
      have : a = ']' := by
        rw [show ('[' :: (T ++ [']'])) = ('[' :: T) ++ [']'] from rfl, List.getLast?_concat] at ha
        simpa using ha.symm
      subst this; decide
  simp only [parseLinkedList, parseLinkedListWith, hb, htr]
  have hlen : ¬ ((('[' :: (T ++ [']'])).length) < 2) := by simp
  have hlen2 : ((('[' :: (T ++ [']'])).length) == 2) = false := by
    cases T with
    | nil => exact absurd rfl hj
    | cons a t => simp
  have hlast : ('[' :: (T ++ [']'])).getLast? = some ']' := by
    rw [show ('[' :: (T ++ [']'])) = ('[' :: T) ++ [']'] from rfl, List.getLast?_concat]
  simp only [hlen, if_false, List.head?_cons, hlast, show ('[' != '[') = false from by decide,
    show (']' != ']') = false from by decide, Bool.false_eq_true, hlen2]
  have hmid : (List.drop 1 ('[' :: (T ++ [']']))).dropLast = T := by simp
  rw [hmid, ← hT, tail_text_reverse]
  exact listLoop_tail po f V v hV hq hv as.reverse (by simpa using hne) (fun a ha => hok a (by simpa using ha))

end Suiron.Parse
