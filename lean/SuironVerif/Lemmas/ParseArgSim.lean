/-
  C20 beyond tokens: the ARGUMENT context for structured texts.

  For every text `s` without a backslash, without a comma outside its own quotes / parentheses / brackets, whose
  parentheses and brackets are closed and in which `parse_term` finds no arithmetic infix (known finding F3):
      parse_arguments s = [parse_term s].
  The two scanners — the `while` loop of `parse_arguments` and `unescape` + the flag loop of `parse_term` — are run side by
  side over the text (`sim`): the argument collected is the text itself, the quotes counted are the quotes `unescape`
  counts, and the three classification flags agree wherever `make_term` looks at them (`Rel`): when the text has no
  quote of its own, both say "number" for exactly the same texts, with the same verdict on the decimal point; when
  it has, `check_quotes` leaves only texts that begin and end with a quote, for which `make_term` ignores the flags.
-/
import SuironVerif.Lemmas.ParseToken
namespace Suiron.Parse
open Suiron

/-- where the scanners are: parenthesis depth, bracket depth, between quotes -/
structure Dp where
  round : Int
  square : Int
  oq : Bool

def ArgSt.dp (st : ArgSt) : Dp := ⟨st.round, st.square, st.openQuote⟩

/-- a comma that would end the argument: outside quotes, parentheses and brackets -/
def topComma (ch : Char) (d : Dp) : Bool := ch == ',' && !d.oq && d.round == 0 && d.square == 0

/-- how one character moves the depth (the same in `parse_arguments` and in `unescape`) -/
def dpStep (ch : Char) (d : Dp) : Dp :=
  if d.oq then { d with oq := !(ch == '"') }
  else if ch == '"' then { d with oq := true }
  else if ch == '[' then { d with square := d.square + 1 }
  else if ch == ']' then { d with square := d.square - 1 }
  else if ch == '(' then { d with round := d.round + 1 }
  else if ch == ')' then { d with round := d.round - 1 }
  else d

def dpScan : Text → Dp → Dp
  | [], d => d
  | ch :: rest, d => dpScan rest (dpStep ch d)

def noTopComma : Text → Dp → Bool
  | [], _ => true
  | ch :: rest, d => !topComma ch d && noTopComma rest (dpStep ch d)

/-- the quotes outside parentheses and brackets -/
def qCount : Text → Dp → Nat
  | [], _ => 0
  | ch :: rest, d => (if ch == '"' && d.round == 0 && d.square == 0 then 1 else 0) + qCount rest (dpStep ch d)

/-- `unescape` on a text without backslashes: the text itself, and the quotes outside parentheses and brackets -/
theorem unescLoop_nobs : ∀ (s : Text) (round square : Int) (oq : Bool), (∀ c ∈ s, c ≠ '\\') →
    unescLoop s round square oq = (s, qCount s ⟨round, square, oq⟩)
  | [], _, _, _, _ => by simp [unescLoop, qCount]
  | ch :: rest, round, square, oq, h => by
    have hc : (ch == '\\') = false := by simpa using h ch (by simp)
    have hr : ∀ c ∈ rest, c ≠ '\\' := fun c hc' => h c (by simp [hc'])
    unfold unescLoop
    simp only [qCount, dpStep]
    by_cases h1 : oq = true
    · subst h1
      simp only [if_true, unescLoop_nobs rest round square _ hr]
      simp [Nat.add_comm]
    · have h1' : oq = false := by simpa using h1
      subst h1'
      simp only [Bool.false_eq_true, if_false]
      by_cases hq : (ch == '"') = true
      · by_cases hd : (round == 0 && square == 0) = true
        · have hd' : round == 0 ∧ square == 0 := by simpa using hd
          have e1 : (ch == '[') = false := by have : ch = '"' := by simpa using hq
                                              subst this; decide
          have e2 : (ch == ']') = false := by have : ch = '"' := by simpa using hq
                                              subst this; decide
          have e3 : (ch == '(') = false := by have : ch = '"' := by simpa using hq
                                              subst this; decide
          have e4 : (ch == ')') = false := by have : ch = '"' := by simpa using hq
                                              subst this; decide
          simp only [hq, hd, Bool.not_true, Bool.and_false, Bool.false_eq_true, if_false, e1, e2, e3, e4, if_true,
            unescLoop_nobs rest round square true hr, hd'.1, hd'.2, Bool.and_self]
          simp [Nat.add_comm]
        · have hd' : (round == 0 && square == 0) = false := by simpa using hd
          simp only [hq, hd', Bool.not_false, Bool.and_self, if_true, unescLoop_nobs rest round square true hr]
          simp only [Bool.true_and, hd', Bool.false_eq_true, if_false, Nat.zero_add, Nat.add_zero]
      · have hq' : (ch == '"') = false := by simpa using hq
        simp only [hq', Bool.false_and, Bool.false_eq_true, if_false]
        by_cases e1 : (ch == '[') = true
        · simp only [e1, if_true, unescLoop_nobs rest round (square + 1) false hr]; simp
        · have e1' : (ch == '[') = false := by simpa using e1
          simp only [e1', Bool.false_eq_true, if_false]
          by_cases e2 : (ch == ']') = true
          · simp only [e2, if_true, unescLoop_nobs rest round (square - 1) false hr]; simp
          · have e2' : (ch == ']') = false := by simpa using e2
            simp only [e2', Bool.false_eq_true, if_false]
            by_cases e3 : (ch == '(') = true
            · simp only [e3, if_true, unescLoop_nobs rest (round + 1) square false hr]; simp
            · have e3' : (ch == '(') = false := by simpa using e3
              simp only [e3', Bool.false_eq_true, if_false]
              by_cases e4 : (ch == ')') = true
              · simp only [e4, if_true, unescLoop_nobs rest (round - 1) square false hr]; simp
              · have e4' : (ch == ')') = false := by simpa using e4
                simp only [e4', Bool.false_eq_true, if_false, hc]
                by_cases hd : (round == 0 && square == 0) = true
                · simp only [hd, if_true, unescLoop_nobs rest round square false hr]; simp
                · have hd' : (round == 0 && square == 0) = false := by simpa using hd
                  simp only [hd', Bool.false_eq_true, if_false, unescLoop_nobs rest round square false hr]; simp

/-! ### the two scanners side by side -/

theorem flagStep_dig_mono (ch : Char) (l : Bool) (acc : Bool × Bool × Bool) (h : acc.1 = true) : (flagStep ch l acc).1 = true := by
  unfold flagStep; split
  · rfl
  · split
    · exact h
    · split <;> exact h

theorem flagStep_nd_mono (ch : Char) (l : Bool) (acc : Bool × Bool × Bool) (h : acc.2.1 = true) : (flagStep ch l acc).2.1 = true := by
  unfold flagStep; split
  · exact h
  · split
    · exact h
    · split
      · exact h
      · rfl

theorem flagStep_other (ch : Char) (l : Bool) (acc : Bool × Bool × Bool) (hd : isDigit ch = false) (hp : (ch == '.') = false)
    (hs : ((ch == '+' || ch == '-') && l) = false) : flagStep ch l acc = (acc.1, true, acc.2.2) := by
  unfold flagStep; simp [hd, hp, hs]

/-- what the state of `parse_arguments` and the flags of `parse_term` have in common after the same prefix -/
structure Rel (st : ArgSt) (acc : Bool × Bool × Bool) : Prop where
  dig : st.hasDigit = true → acc.1 = true
  nd : acc.2.1 = true → st.hasNonDigit = true ∨ st.arg.any isWs = true ∨ 0 < st.numQuotes
  num : acc.2.1 = false → st.round = 0 ∧ st.square = 0 ∧ st.openQuote = false ∧ st.hasDigit = acc.1 ∧ st.hasPeriod = acc.2.2 ∧
          st.hasNonDigit = false ∧ st.arg.any isWs = false ∧ st.numQuotes = 0
  deep : (st.round ≠ 0 ∨ st.square ≠ 0) → st.hasNonDigit = true
  inq : st.openQuote = true → st.round = 0 → st.square = 0 → 0 < st.numQuotes

theorem ite_succ (c : Prop) [Decidable c] (n : Nat) : (if c then n + 1 else n) = n + (if c then 1 else 0) := by
  split <;> rfl

theorem any_push (l : Text) (c : Char) : (l ++ [c]).any isWs = (l.any isWs || isWs c) := by simp [List.any_append]

/-- the three disjuncts of `Rel.nd` survive a step that only pushes a character and never lowers the counts -/
theorem nd_persist {st st' : ArgSt} {ch : Char} (ha : st'.arg = st.arg ++ [ch]) (hn : st.hasNonDigit = true → st'.hasNonDigit = true)
    (hq : st.numQuotes ≤ st'.numQuotes)
    (h : st.hasNonDigit = true ∨ st.arg.any isWs = true ∨ 0 < st.numQuotes) :
    st'.hasNonDigit = true ∨ st'.arg.any isWs = true ∨ 0 < st'.numQuotes := by
  rcases h with h | h | h
  · exact Or.inl (hn h)
  · right; left; rw [ha, any_push, h]; rfl
  · right; right; omega

theorem sim_step (mk : Text → Bool → Bool → Bool → Res Term) (ch : Char) (rest : Text) (st : ArgSt)
    (acc : Bool × Bool × Bool) (i : Nat) (signOK : Bool)
    (hesc : st.esc = false) (hbs : (ch == '\\') = false) (hcm : topComma ch st.dp = false)
    (hrel : Rel st acc) (hi : i = st.arg.length) (hhd : ∀ a, st.arg.head? = some a → isWs a = false)
    (hch0 : st.arg = [] → isWs ch = false)
    (hs : i = 0 → signOK = isDigit (rest.head?.getD 'x')) :
    ∃ st', argStep mk ch rest st = .ok st' ∧ st'.esc = false ∧ st'.arg = st.arg ++ [ch] ∧ st'.dp = dpStep ch st.dp ∧
      st'.numQuotes = st.numQuotes + (if ch == '"' && st.round == 0 && st.square == 0 then 1 else 0) ∧
      st'.terms = st.terms ∧ st'.pending = st.pending ∧ Rel st' (flagStep ch (i == 0 && signOK) acc) := by
  unfold argStep
  simp only [hesc, Bool.false_eq_true, if_false]
  by_cases hoq : st.openQuote = true
  · -- between quotes
    simp only [hoq, if_true]
    have hand : acc.2.1 = true := by
      cases h : acc.2.1 with
      | true => rfl
      | false => have := (hrel.num h).2.2.1; rw [hoq] at this; cases this
    refine ⟨_, rfl, hesc, rfl, by simp [ArgSt.dp, ArgSt.push, dpStep, hoq], by simp only [ArgSt.push, Bool.and_assoc]; exact ite_succ _ _, rfl, rfl, ?_⟩
    refine ⟨fun h => flagStep_dig_mono _ _ _ (hrel.dig h), fun _ => ?_, fun h => ?_, fun h => hrel.deep h, fun h hr hsq => ?_⟩
    · refine nd_persist (st' := { st.push ch with openQuote := !(ch == '"'), numQuotes := _ }) rfl (fun h => h) ?_ (hrel.nd hand)
      simp only; split <;> omega
    · rw [flagStep_nd_mono _ _ _ hand] at h; cases h
    · have := hrel.inq hoq hr hsq
      simp only [ArgSt.push]; split <;> omega
  · have hoq' : st.openQuote = false := by simpa using hoq
    simp only [hoq', Bool.false_eq_true, if_false]
    have hlead0 : ∀ (b : Bool), (i == 0 && b) = true → st.arg = [] := by
      intro b hb
      have : i = 0 := by simpa using ((Bool.and_eq_true _ _).mp hb).1
      rw [this] at hi
      exact List.length_eq_zero_iff.mp hi.symm
    by_cases hq : (ch == '"' && !(st.round == 0 && st.square == 0)) = true
    · -- a quote below the top level
      simp only [hq, if_true]
      have hq1 : (ch == '"') = true := ((Bool.and_eq_true _ _).mp hq).1
      have hq2 : (st.round == 0 && st.square == 0) = false := by
        have := ((Bool.and_eq_true _ _).mp hq).2
        cases hx : (st.round == 0 && st.square == 0) with
        | false => rfl
        | true => rw [hx] at this; exact absurd this (by decide)
      have hchq : ch = '"' := by simpa using hq1
      have hfs : flagStep ch (i == 0 && signOK) acc = (acc.1, true, acc.2.2) :=
        flagStep_other _ _ _ (by subst hchq; decide) (by subst hchq; decide) (by subst hchq; simp)
      refine ⟨_, rfl, hesc, rfl, by simp [ArgSt.dp, ArgSt.push, dpStep, hoq', hq1], ?_, rfl, rfl, ?_⟩
      · have : (ch == '"' && st.round == 0 && st.square == 0) = false := by rw [Bool.and_assoc, hq2]; simp
        simp [ArgSt.push, this]
      · rw [hfs]
        refine ⟨fun h => hrel.dig h, fun _ => Or.inl rfl, fun h => (by cases h), fun _ => rfl, fun _ hr hsq => ?_⟩
        simp only [ArgSt.push] at hr hsq
        rw [hr, hsq] at hq2; simp at hq2
    · have hq' : (ch == '"' && !(st.round == 0 && st.square == 0)) = false := by simpa using hq
      simp only [hq', Bool.false_eq_true, if_false]
      -- brackets and parentheses
      have bracket : ∀ (st' : ArgSt), st'.hasNonDigit = true → st'.openQuote = false → st'.hasDigit = st.hasDigit →
          isDigit ch = false → (ch == '.') = false → (ch == '+' || ch == '-') = false →
          Rel st' (flagStep ch (i == 0 && signOK) acc) := by
        intro st' h1 h2 h3 h4 h5 h6
        rw [flagStep_other _ _ _ h4 h5 (by simp [h6])]
        exact ⟨fun h => hrel.dig (h3 ▸ h), fun _ => Or.inl h1, fun h => (by cases h), fun _ => h1, fun h => (by rw [h2] at h; cases h)⟩
      by_cases e1 : (ch == '[') = true
      · have hc : ch = '[' := by simpa using e1
        simp only [e1, if_true]
        refine ⟨_, rfl, hesc, rfl, by subst hc; simp [ArgSt.dp, ArgSt.push, dpStep, hoq'], by subst hc; simp [ArgSt.push], rfl, rfl, ?_⟩
        exact bracket _ rfl hoq' rfl (by subst hc; decide) (by subst hc; decide) (by subst hc; decide)
      · have e1' : (ch == '[') = false := by simpa using e1
        simp only [e1', Bool.false_eq_true, if_false]
        by_cases e2 : (ch == ']') = true
        · have hc : ch = ']' := by simpa using e2
          simp only [e2, if_true]
          refine ⟨_, rfl, hesc, rfl, by subst hc; simp [ArgSt.dp, ArgSt.push, dpStep, hoq'], by subst hc; simp [ArgSt.push], rfl, rfl, ?_⟩
          exact bracket _ rfl hoq' rfl (by subst hc; decide) (by subst hc; decide) (by subst hc; decide)
        · have e2' : (ch == ']') = false := by simpa using e2
          simp only [e2', Bool.false_eq_true, if_false]
          by_cases e3 : (ch == '(') = true
          · have hc : ch = '(' := by simpa using e3
            simp only [e3, if_true]
            refine ⟨_, rfl, hesc, rfl, by subst hc; simp [ArgSt.dp, ArgSt.push, dpStep, hoq'], by subst hc; simp [ArgSt.push], rfl, rfl, ?_⟩
            exact bracket _ rfl hoq' rfl (by subst hc; decide) (by subst hc; decide) (by subst hc; decide)
          · have e3' : (ch == '(') = false := by simpa using e3
            simp only [e3', Bool.false_eq_true, if_false]
            by_cases e4 : (ch == ')') = true
            · have hc : ch = ')' := by simpa using e4
              simp only [e4, if_true]
              refine ⟨_, rfl, hesc, rfl, by subst hc; simp [ArgSt.dp, ArgSt.push, dpStep, hoq'], by subst hc; simp [ArgSt.push], rfl, rfl, ?_⟩
              exact bracket _ rfl hoq' rfl (by subst hc; decide) (by subst hc; decide) (by subst hc; decide)
            · have e4' : (ch == ')') = false := by simpa using e4
              simp only [e4', Bool.false_eq_true, if_false]
              have hdp : ∀ (hq0 : (ch == '"') = false), dpStep ch st.dp = st.dp := by
                intro hq0; simp [dpStep, ArgSt.dp, hoq', hq0, e1', e2', e3', e4']
              by_cases htop : (st.round == 0 && st.square == 0) = true
              · -- outside quotes, parentheses and brackets
                have hr0 : st.round = 0 := by simpa using ((Bool.and_eq_true _ _).mp htop).1
                have hs0 : st.square = 0 := by simpa using ((Bool.and_eq_true _ _).mp htop).2
                simp only [htop, if_true]
                unfold argStepTop
                have hcomma : (ch == ',') = false := by
                  simpa [topComma, ArgSt.dp, hoq', hr0, hs0] using hcm
                simp only [hcomma, Bool.false_eq_true, if_false]
                by_cases hd : isDigit ch = true
                · -- a digit
                  simp only [hd, if_true]
                  have hq0 : (ch == '"') = false := by
                    cases h : (ch == '"') with
                    | false => rfl
                    | true => have : ch = '"' := by simpa using h
                              subst this; revert hd; decide
                  have hws : isWs ch = false := by
                    cases h : isWs ch with
                    | false => rfl
                    | true => exfalso; revert hd h; unfold isDigit isWs; intro hd h
                              simp only [Bool.and_eq_true, decide_eq_true_eq, Bool.or_eq_true, beq_iff_eq] at hd h
                              have : ch.toNat ≥ 48 := by have := hd.1; simpa using this
                              have h57 : ch.toNat ≤ 57 := by have := hd.2; simpa using this
                              omega
                  refine ⟨_, rfl, hesc, rfl, (hdp hq0).symm, by simp [ArgSt.push, hq0], rfl, rfl, ?_⟩
                  have hfs : flagStep ch (i == 0 && signOK) acc = (true, acc.2.1, acc.2.2) := by simp [flagStep, hd]
                  rw [hfs]
                  refine ⟨fun _ => rfl, fun h => ?_, fun h => ?_, fun h => ?_, fun h => ?_⟩
                  · exact nd_persist (st' := { st.push ch with hasDigit := true }) rfl (fun h => h) (Nat.le_refl _) (hrel.nd h)
                  · obtain ⟨a1, a2, a3, a4, a5, a6, a7, a8⟩ := hrel.num h
                    refine ⟨a1, a2, a3, rfl, a5, a6, ?_, a8⟩
                    show (st.arg ++ [ch]).any isWs = false
                    rw [any_push, a7, hws]; rfl
                  · simp only [ArgSt.push] at h; rcases h with h | h
                    · exact absurd hr0 h
                    · exact absurd hs0 h
                  · simp only [ArgSt.push] at h; rw [hoq'] at h; cases h
                · have hd' : isDigit ch = false := by simpa using hd
                  simp only [hd', Bool.false_eq_true, if_false]
                  by_cases hsg : (ch == '+' || ch == '-') = true
                  · -- a sign
                    simp only [hsg, if_true]
                    have hq0 : (ch == '"') = false := by
                      rcases (by simpa using hsg : ch = '+' ∨ ch = '-') with rfl | rfl <;> decide
                    have hper : (ch == '.') = false := by
                      rcases (by simpa using hsg : ch = '+' ∨ ch = '-') with rfl | rfl <;> decide
                    have hws : isWs ch = false := by
                      rcases (by simpa using hsg : ch = '+' ∨ ch = '-') with rfl | rfl <;> decide
                    refine ⟨_, rfl, hesc, rfl, (hdp hq0).symm, by simp [argSign, ArgSt.push, hq0], rfl, rfl, ?_⟩
                    -- is the sign at the start of the argument?
                    have hat : ((trim (st.arg ++ [ch])).length == 1) = st.arg.isEmpty := by
                      have htr : trim (st.arg ++ [ch]) = st.arg ++ [ch] := by
                        apply trim_of_ends (by simp)
                        · intro a ha
                          cases harg : st.arg with
                          | nil => rw [harg] at ha; simp at ha; subst ha; exact hws
                          | cons b t => rw [harg] at ha; simp at ha; subst ha; exact hhd b (by rw [harg]; rfl)
                        · intro a ha
                          rw [List.getLast?_concat] at ha; cases ha; exact hws
                      rw [htr]
                      cases st.arg <;> simp
                    by_cases hlead : (i == 0 && signOK) = true
                    · -- a leading sign before a digit: nothing changes on either side
                      have harg := hlead0 _ hlead
                      have hi0 : i = 0 := by simpa using ((Bool.and_eq_true _ _).mp hlead).1
                      have hso : signOK = true := ((Bool.and_eq_true _ _).mp hlead).2
                      have hnext : isDigit (rest.head?.getD 'x') = true := by rw [← hs hi0]; exact hso
                      have hfs : flagStep ch (i == 0 && signOK) acc = acc := by
                        unfold flagStep; simp [hd', hper, hsg, hlead]
                      rw [hfs]
                      have hnd' : (argSign ch rest st).hasNonDigit = st.hasNonDigit := by
                        simp only [argSign, ArgSt.push, hat]
                        rw [harg]; simp [hnext]
                      refine ⟨fun h => hrel.dig h, fun h => ?_, fun h => ?_, fun h => ?_, fun h => ?_⟩
                      · exact nd_persist (st' := argSign ch rest st) rfl (fun h => by rw [hnd']; exact h) (Nat.le_refl _) (hrel.nd h)
                      · obtain ⟨a1, a2, a3, a4, a5, a6, a7, a8⟩ := hrel.num h
                        refine ⟨a1, a2, a3, a4, a5, by rw [hnd']; exact a6, ?_, a8⟩
                        show (st.arg ++ [ch]).any isWs = false
                        rw [any_push, a7, hws]; rfl
                      · simp only [argSign, ArgSt.push] at h; rcases h with h | h
                        · exact absurd hr0 h
                        · exact absurd hs0 h
                      · simp only [argSign, ArgSt.push] at h; rw [hoq'] at h; cases h
                    · -- any other sign is not part of a number, on either side
                      have hlead' : (i == 0 && signOK) = false := by simpa using hlead
                      have hfs : flagStep ch (i == 0 && signOK) acc = (acc.1, true, acc.2.2) :=
                        flagStep_other _ _ _ hd' hper (by simp [hlead'])
                      rw [hfs]
                      have hnd' : (argSign ch rest st).hasNonDigit = true := by
                        simp only [argSign, ArgSt.push, hat]
                        cases harg : st.arg with
                        | cons b t => simp
                        | nil =>
                          have hi0 : i = 0 := by rw [hi, harg]; rfl
                          have : signOK = false := by simpa [hi0] using hlead'
                          have hnx : isDigit (rest.head?.getD 'x') = false := by rw [← hs hi0]; exact this
                          simp [hnx]
                      refine ⟨fun h => hrel.dig h, fun _ => Or.inl hnd', fun h => (by cases h), fun _ => hnd', fun h => ?_⟩
                      simp only [argSign, ArgSt.push] at h; rw [hoq'] at h; cases h
                  · have hsg' : (ch == '+' || ch == '-') = false := by simpa using hsg
                    simp only [hsg', Bool.false_eq_true, if_false]
                    by_cases hper : (ch == '.') = true
                    · -- a decimal point
                      have hc : ch = '.' := by simpa using hper
                      simp only [hper, if_true]
                      refine ⟨_, rfl, hesc, rfl, by subst hc; simp [ArgSt.dp, ArgSt.push, dpStep, hoq'], by subst hc; simp [ArgSt.push], rfl, rfl, ?_⟩
                      have hfs : flagStep ch (i == 0 && signOK) acc = (acc.1, acc.2.1, true) := by simp [flagStep, hd', hper]
                      rw [hfs]
                      refine ⟨fun h => hrel.dig h, fun h => ?_, fun h => ?_, fun h => ?_, fun h => ?_⟩
                      · exact nd_persist (st' := { st.push ch with hasPeriod := true }) rfl (fun h => h) (Nat.le_refl _) (hrel.nd h)
                      · obtain ⟨a1, a2, a3, a4, a5, a6, a7, a8⟩ := hrel.num h
                        refine ⟨a1, a2, a3, a4, rfl, a6, ?_, a8⟩
                        show (st.arg ++ [ch]).any isWs = false
                        rw [any_push, a7]; subst hc; rfl
                      · simp only [ArgSt.push] at h; rcases h with h | h
                        · exact absurd hr0 h
                        · exact absurd hs0 h
                      · simp only [ArgSt.push] at h; rw [hoq'] at h; cases h
                    · have hper' : (ch == '.') = false := by simpa using hper
                      simp only [hper', hbs, Bool.false_eq_true, if_false]
                      have hfs : flagStep ch (i == 0 && signOK) acc = (acc.1, true, acc.2.2) :=
                        flagStep_other _ _ _ hd' hper' (by simp [hsg'])
                      rw [hfs]
                      by_cases hq0 : (ch == '"') = true
                      · -- a quote outside parentheses and brackets
                        have hc : ch = '"' := by simpa using hq0
                        simp only [hq0, if_true]
                        refine ⟨_, rfl, hesc, rfl, by subst hc; simp [ArgSt.dp, ArgSt.push, dpStep, hoq'],
                          by subst hc; simp [ArgSt.push, hr0, hs0], rfl, rfl, ?_⟩
                        refine ⟨fun h => hrel.dig h, fun _ => Or.inr (Or.inr (Nat.succ_pos _)), fun h => (by cases h), fun h => ?_, fun _ _ _ => Nat.succ_pos _⟩
                        simp only [ArgSt.push] at h; rcases h with h | h
                        · exact absurd hr0 h
                        · exact absurd hs0 h
                      · -- any other character
                        have hq0' : (ch == '"') = false := by simpa using hq0
                        simp only [hq0', Bool.false_eq_true, if_false]
                        refine ⟨_, rfl, hesc, rfl, (hdp hq0').symm, by simp [ArgSt.push, hq0'], rfl, rfl, ?_⟩
                        refine ⟨fun h => hrel.dig h, fun _ => ?_, fun h => (by cases h), fun h => ?_, fun h => ?_⟩
                        · cases hw : isWs ch with
                          | true => right; left; show (st.arg ++ [ch]).any isWs = true; rw [any_push, hw]; simp
                          | false => left; simp [ArgSt.push, hw]
                        · simp only [ArgSt.push] at h; rcases h with h | h
                          · exact absurd hr0 h
                          · exact absurd hs0 h
                        · simp only [ArgSt.push] at h; rw [hoq'] at h; cases h
              · -- inside parentheses or brackets
                have htop' : (st.round == 0 && st.square == 0) = false := by simpa using htop
                simp only [htop', Bool.false_eq_true, if_false]
                have hq0 : (ch == '"') = false := by
                  cases h : (ch == '"') with
                  | false => rfl
                  | true => rw [h, htop'] at hq'; simp at hq'
                have hdeep : st.round ≠ 0 ∨ st.square ≠ 0 := by
                  by_cases hr0 : st.round = 0
                  · right; intro hs0; rw [hr0, hs0] at htop'; simp at htop'
                  · left; exact hr0
                have hand : acc.2.1 = true := by
                  cases h : acc.2.1 with
                  | true => rfl
                  | false =>
                    obtain ⟨a1, a2, _⟩ := hrel.num h
                    rcases hdeep with h' | h'
                    · exact absurd a1 h'
                    · exact absurd a2 h'
                refine ⟨_, rfl, hesc, rfl, (hdp hq0).symm, ?_, rfl, rfl, ?_⟩
                · have : (ch == '"' && st.round == 0 && st.square == 0) = false := by simp [hq0]
                  simp [ArgSt.push, this]
                · refine ⟨fun h => flagStep_dig_mono _ _ _ (hrel.dig h), fun _ => Or.inl rfl, fun h => ?_, fun _ => rfl, fun h => ?_⟩
                  · rw [flagStep_nd_mono _ _ _ hand] at h; cases h
                  · simp only [ArgSt.push] at h; rw [hoq'] at h; cases h

theorem sim (mk : Text → Bool → Bool → Bool → Res Term) (signOK : Bool) :
    ∀ (rest : Text) (st : ArgSt) (acc : Bool × Bool × Bool) (i : Nat),
      st.esc = false → (∀ c ∈ rest, c ≠ '\\') → noTopComma rest st.dp = true → Rel st acc → i = st.arg.length →
      (∀ a, st.arg.head? = some a → isWs a = false) → (st.arg = [] → ∀ a, rest.head? = some a → isWs a = false) →
      (i = 0 → signOK = isDigit ((rest.drop 1).head?.getD 'x')) →
      ∃ st', argsLoop mk rest st = argsFinish mk st' ∧ st'.arg = st.arg ++ rest ∧ st'.dp = dpScan rest st.dp ∧
        st'.numQuotes = st.numQuotes + qCount rest st.dp ∧ st'.terms = st.terms ∧ st'.pending = st.pending ∧
        Rel st' (flagLoop signOK rest i acc) := by
  intro rest
  induction rest with
  | nil =>
    intro st acc i _ _ _ hrel _ _ _ _
    exact ⟨st, by simp [argsLoop], by simp, rfl, by simp [qCount], rfl, rfl, by simpa [flagLoop] using hrel⟩
  | cons ch rest ih =>
    intro st acc i hesc hbs hcm hrel hi hhd hch0 hs
    simp only [noTopComma, Bool.and_eq_true, Bool.not_eq_true'] at hcm
    have hbs1 : (ch == '\\') = false := by simpa using hbs ch (by simp)
    obtain ⟨st1, h1, he1, ha1, hd1, hq1, ht1, hp1, hr1⟩ := sim_step mk ch rest st acc i signOK hesc hbs1 hcm.1 hrel hi hhd
      (fun h => hch0 h ch rfl) (fun h => by simpa using hs h)
    have hhd1 : ∀ a, st1.arg.head? = some a → isWs a = false := by
      intro a ha
      rw [ha1] at ha
      cases harg : st.arg with
      | nil => rw [harg] at ha; simp at ha; subst ha; exact hch0 harg ch rfl
      | cons b t => rw [harg] at ha; simp at ha; subst ha; exact hhd b (by rw [harg]; rfl)
    obtain ⟨st', h2, ha2, hd2, hq2, ht2, hp2, hr2⟩ := ih st1 (flagStep ch (i == 0 && signOK) acc) (i + 1) he1
      (fun c hc => hbs c (by simp [hc])) (by rw [hd1]; exact hcm.2) hr1 (by rw [ha1, hi]; simp) hhd1
      (fun h => by rw [ha1] at h; simp at h) (fun h => by omega)
    refine ⟨st', ?_, by rw [ha2, ha1]; simp, by rw [hd2, hd1]; rfl, ?_, by rw [ht2, ht1], by rw [hp2, hp1], by simpa [flagLoop] using hr2⟩
    · simp only [argsLoop, h1, Res.bind_ok]; exact h2
    · rw [hq2, hq1, hd1, Nat.add_assoc]; rfl

/-! ### from the agreement of the scanners to the agreement of the parsers -/

theorem qCount_le_length : ∀ (s : Text) (d : Dp), qCount s d ≤ s.length
  | [], _ => by simp [qCount]
  | ch :: rest, d => by
    have := qCount_le_length rest (dpStep ch d)
    simp only [qCount, List.length_cons]
    split <;> omega

/-- with the non-digit flag set the other two flags are not looked at -/
theorem makeTerm_nondigit (po : POps) (f : Nat) (s : Text) (d1 d2 p1 p2 : Bool) :
    makeTerm po f s d1 true p1 = makeTerm po f s d2 true p2 := by
  cases f with
  | zero => simp [makeTerm]
  | succ f => simp [makeTerm]

/-- a text that begins with a quote and has at least two characters is a quoted atom or an error, whatever the flags -/
theorem makeTerm_quoted (po : POps) (f : Nat) (t : Text) (htr : trim ('"' :: t) = '"' :: t) (hl : 2 ≤ ('"' :: t).length)
    (d1 n1 p1 d2 n2 p2 : Bool) : makeTerm po f ('"' :: t) d1 n1 p1 = makeTerm po f ('"' :: t) d2 n2 p2 := by
  cases f with
  | zero => simp [makeTerm]
  | succ f =>
    unfold makeTerm
    simp only [htr]
    have h1 : (('"' : Char) == '$') = false := by decide
    simp only [h1, Bool.false_eq_true, if_false, hl, ge_iff_le, if_true]
    cases hla : ('"' :: t).getLast? with
    | none => rfl
    | some last => simp

theorem dropWhile_len_le (p : Char → Bool) : ∀ (l : Text), (l.dropWhile p).length ≤ l.length
  | [] => by simp
  | a :: l => by
    simp only [List.dropWhile]
    split
    · exact Nat.le_trans (dropWhile_len_le p l) (by simp)
    · exact Nat.le_refl _

theorem trim_head_nonws {s : Text} (h : trim s = s) : ∀ a, s.head? = some a → isWs a = false := by
  intro a ha
  cases s with
  | nil => cases ha
  | cons b t =>
    simp at ha; subst ha
    cases hw : isWs b with
    | false => rfl
    | true =>
      exfalso
      have h1 : (trim (b :: t)).length ≤ t.length := by
        unfold trim trimEnd trimStart
        rw [List.length_reverse]
        refine Nat.le_trans (dropWhile_len_le _ _) ?_
        rw [List.length_reverse]
        simp only [List.dropWhile, hw]
        exact dropWhile_len_le _ _
      rw [h] at h1
      simp only [List.length_cons] at h1
      omega

/-- what `check_quotes` lets through when there are quotes: exactly two, the first of them at the very beginning -/
theorem checkQuotes_ok {s : Text} {q : Nat} (h : checkQuotes s q = .ok ()) (hq : q ≠ 0) : q = 2 ∧ s.head? = some '"' := by
  unfold checkQuotes at h
  have h0 : (q == 0) = false := by simpa using hq
  simp only [h0, Bool.false_eq_true, if_false] at h
  by_cases h2 : (q != 2) = true
  · simp only [h2, if_true] at h; cases h
  · have h2' : q = 2 := by simpa using h2
    simp only [h2, if_false] at h
    cases s with
    | nil => cases h
    | cons first t =>
      simp only at h
      by_cases hf : (first != '"') = true
      · simp only [hf, if_true] at h; cases h
      · have : first = '"' := by simpa using hf
        exact ⟨h2', by rw [this]; rfl⟩

/-- C20, ARGUMENT context, structured texts: for every trimmed text without a backslash, without a comma outside its own
    quotes / parentheses / brackets, with its parentheses and brackets closed, in which `parse_term` finds no arithmetic
    infix (known finding F3): as an argument it is what it is alone. -/
theorem parseArguments_structured (po : POps) (f : Nat) (s : Text) (htrim : trim s = s) (hne : s ≠ [])
    (hbs : ∀ c ∈ s, c ≠ '\\') (hcm : noTopComma s ⟨0, 0, false⟩ = true) (hlast : s.getLast? ≠ some ',')
    (hbal : (dpScan s ⟨0, 0, false⟩).round = 0 ∧ (dpScan s ⟨0, 0, false⟩).square = 0)
    (hinf : (checkArithmeticInfix s).1 = .none) :
    parseArguments po (f + 1) s = (parseTerm po (f + 1) s).bind fun t => .ok [t] := by
  have hhead := trim_head_nonws htrim
  -- the loop of parse_arguments
  have hrel0 : Rel ({} : ArgSt) (false, false, false) :=
    ⟨fun h => (by cases h), fun h => (by cases h), fun _ => ⟨rfl, rfl, rfl, rfl, rfl, rfl, rfl, rfl⟩,
     fun h => (by rcases h with h | h <;> exact absurd rfl h), fun h => (by cases h)⟩
  obtain ⟨st', hloop, harg, hdp, hq, hterms, hpend, hrel⟩ :=
    sim (makeTerm po f) (isDigit ((s.drop 1).head?.getD 'x')) s {} (false, false, false) 0 rfl hbs hcm hrel0 rfl
      (fun a ha => by cases ha) (fun _ => hhead) (fun _ => rfl)
  have harg' : st'.arg = s := by simpa using harg
  have hq' : st'.numQuotes = qCount s ⟨0, 0, false⟩ := by simpa [ArgSt.dp] using hq
  have hround : st'.round = 0 := by have := congrArg Dp.round hdp; simpa [ArgSt.dp] using this.trans hbal.1
  have hsquare : st'.square = 0 := by have := congrArg Dp.square hdp; simpa [ArgSt.dp] using this.trans hbal.2
  have hterms' : st'.terms = [] := hterms
  have hpend' : st'.pending = true := hpend
  have hA : parseArguments po (f + 1) s =
      (checkQuotes s (qCount s ⟨0, 0, false⟩)).bind fun _ =>
        (makeTerm po f s st'.hasDigit (st'.hasNonDigit || s.any isWs) st'.hasPeriod).bind fun t => .ok [t] := by
    simp only [parseArguments, parseArgumentsWith, htrim]
    cases hs : s with
    | nil => exact absurd hs hne
    | cons first t =>
      have hfc : (first == ',') = false := by
        rw [hs] at hcm
        simp only [noTopComma, topComma, Bool.and_eq_true, Bool.not_eq_true'] at hcm
        simpa using hcm.1
      have hlc : ((first :: t).getLast? == some ',') = false := by
        rw [hs] at hlast
        cases h : (first :: t).getLast? with
        | none => rfl
        | some l => rw [h] at hlast; simpa using hlast
      simp only [hfc, Bool.false_eq_true, if_false, hlc, Res.bind_ok]
      rw [← hs, hloop]
      unfold argsFinish
      simp only [hpend', if_true, harg', htrim, hq', hterms', List.nil_append, hround, hsquare, bne_self_eq_false, Bool.false_eq_true, if_false]
      cases checkQuotes s (qCount s ⟨0, 0, false⟩) with
      | ok _ =>
        simp only [Res.bind_ok]
        cases makeTerm po f s st'.hasDigit (st'.hasNonDigit || s.any isWs) st'.hasPeriod <;> simp [Res.bind]
      | fail => simp [Res.bind]
      | panic => simp [Res.bind]
      | oof => simp [Res.bind]
  -- parse_term
  have hT : parseTerm po (f + 1) s =
      (checkQuotes s (qCount s ⟨0, 0, false⟩)).bind fun _ =>
        makeTerm po f s (termFlags s).1 (termFlags s).2.1 (termFlags s).2.2 := by
    simp only [parseTerm, htrim, hinf]
    simp only [show ((Infix.none == Infix.plus || Infix.none == Infix.minus || Infix.none == Infix.mul || Infix.none == Infix.div) = true) = False from by decide, if_false]
    have hu : unescape s = (s, qCount s ⟨0, 0, false⟩) := unescLoop_nobs s 0 0 false hbs
    rw [hu]
    simp only [htrim]
  rw [hA, hT]
  -- the flags, where make_term looks at them
  rw [termFlags_eq] at *
  cases hcq : checkQuotes s (qCount s ⟨0, 0, false⟩) with
  | fail => simp [Res.bind]
  | panic => simp [Res.bind]
  | oof => simp [Res.bind]
  | ok u =>
    simp only [Res.bind_ok]
    have hflags : makeTerm po f s st'.hasDigit (st'.hasNonDigit || s.any isWs) st'.hasPeriod =
        makeTerm po f s (flagLoop (isDigit ((s.drop 1).head?.getD 'x')) s 0 (false, false, false)).1
          (flagLoop (isDigit ((s.drop 1).head?.getD 'x')) s 0 (false, false, false)).2.1
          (flagLoop (isDigit ((s.drop 1).head?.getD 'x')) s 0 (false, false, false)).2.2 := by
      generalize flagLoop (isDigit ((s.drop 1).head?.getD 'x')) s 0 (false, false, false) = T at hrel ⊢
      by_cases hq0 : qCount s ⟨0, 0, false⟩ = 0
      · -- no quote of its own
        cases hnd : T.2.1 with
        | false =>
          obtain ⟨_, _, _, a4, a5, a6, a7, _⟩ := hrel.num hnd
          rw [harg'] at a7
          rw [a4, a5, a6, a7]; rfl
        | true =>
          have h3 := hrel.nd hnd
          rw [harg', hq', hq0] at h3
          have : (st'.hasNonDigit || s.any isWs) = true := by
            rcases h3 with h | h | h
            · simp [h]
            · simp [h]
            · exact absurd h (Nat.lt_irrefl 0)
          rw [this]
          exact makeTerm_nondigit po f s _ _ _ _
      · -- quotes: the text begins with one, and the flags are not looked at
        have hu' : checkQuotes s (qCount s ⟨0, 0, false⟩) = .ok () := by rw [hcq]
        obtain ⟨h2, hh⟩ := checkQuotes_ok hu' hq0
        have hlen : 2 ≤ s.length := by have := qCount_le_length s ⟨0, 0, false⟩; omega
        cases hs : s with
        | nil => exact absurd hs hne
        | cons first t =>
          rw [hs] at hh htrim hlen
          simp at hh; subst hh
          exact makeTerm_quoted po f t htrim hlen _ _ _ _ _ _
    rw [hflags]

/-! ### the same text as the only argument of a complex term -/

/-- `indices_of_parentheses` over a text without backslashes follows the same quotes and the same parentheses as the
    argument scanners -/
theorem parenScan_struct : ∀ (s : Text) (i : Nat) (st : ParenScan) (d : Dp), (∀ c ∈ s, c ≠ '\\') →
    st.escaped = false → st.inQuotes = d.oq → st.left.isSome = true →
    (parenScan s i st).escaped = false ∧ (parenScan s i st).inQuotes = (dpScan s d).oq ∧ (parenScan s i st).left = st.left ∧
    ((parenScan s i st).nl : Int) - (parenScan s i st).nr = (st.nl : Int) - st.nr + ((dpScan s d).round - d.round)
  | [], _, st, d, _, he, hq, _ => by simp [parenScan, dpScan, he, hq]
  | c :: rest, i, ⟨left, right, nl, nr, inQ, esc⟩, d, hbs, he, hq, hl => by
    simp only at he hq hl
    subst he; subst hq
    have hc : (c == '\\') = false := by simpa using hbs c (by simp)
    have hr : ∀ x ∈ rest, x ≠ '\\' := fun x hx => hbs x (by simp [hx])
    simp only [parenScan, dpScan, Bool.false_eq_true, if_false]
    by_cases hoq : d.oq = true
    · simp only [hoq, if_true]
      have := parenScan_struct rest (i + 1) ⟨left, right, nl, nr, !(c == '"'), false⟩ (dpStep c d) hr rfl (by simp [dpStep, hoq]) hl
      have hrd : (dpStep c d).round = d.round := by simp [dpStep, hoq]
      rw [hrd] at this
      exact this
    · have hoq' : d.oq = false := by simpa using hoq
      simp only [hoq', Bool.false_eq_true, if_false]
      by_cases h1 : (c == '"') = true
      · simp only [h1, if_true]
        have := parenScan_struct rest (i + 1) ⟨left, right, nl, nr, true, false⟩ (dpStep c d) hr rfl (by simp [dpStep, hoq', h1]) hl
        have hrd : (dpStep c d).round = d.round := by simp [dpStep, hoq', h1]
        rw [hrd] at this
        exact this
      · have h1' : (c == '"') = false := by simpa using h1
        simp only [h1', hc, Bool.false_eq_true, if_false]
        by_cases h2 : (c == '(') = true
        · have hcc : c = '(' := by simpa using h2
          simp only [h2, if_true]
          have hl' : (left.orElse fun _ => some i) = left := by
            cases hx : left with
            | none => rw [hx] at hl; cases hl
            | some l => rfl
          rw [hl']
          have := parenScan_struct rest (i + 1) ⟨left, right, nl + 1, nr, d.oq, false⟩ (dpStep c d) hr rfl
            (by subst hcc; simp [dpStep, hoq']) hl
          have hrd : (dpStep c d).round = d.round + 1 := by subst hcc; simp [dpStep, hoq']
          rw [hrd] at this
          rw [hoq'] at this
          refine ⟨this.1, this.2.1, this.2.2.1, ?_⟩
          have h4 := this.2.2.2
          simp only at h4 ⊢
          omega
        · have h2' : (c == '(') = false := by simpa using h2
          simp only [h2', Bool.false_eq_true, if_false]
          by_cases h3 : (c == ')') = true
          · have hcc : c = ')' := by simpa using h3
            simp only [h3, if_true]
            have := parenScan_struct rest (i + 1) ⟨left, some i, nl, nr + 1, d.oq, false⟩ (dpStep c d) hr rfl
              (by subst hcc; simp [dpStep, hoq']) hl
            have hrd : (dpStep c d).round = d.round - 1 := by subst hcc; simp [dpStep, hoq']
            rw [hrd] at this
            rw [hoq'] at this
            refine ⟨this.1, this.2.1, this.2.2.1, ?_⟩
            have h4 := this.2.2.2
            simp only at h4 ⊢
            omega
          · have h3' : (c == ')') = false := by simpa using h3
            simp only [h3', Bool.false_eq_true, if_false]
            have hoq2 : (dpStep c d).oq = false := by
              simp only [dpStep, hoq', Bool.false_eq_true, if_false, h1']
              repeat' split
              all_goals first | rfl | exact hoq'
            have hrd : (dpStep c d).round = d.round := by
              simp only [dpStep, hoq', Bool.false_eq_true, if_false, h1', h2', h3']
              repeat' split
              all_goals rfl
            have := parenScan_struct rest (i + 1) ⟨left, right, nl, nr, d.oq, false⟩ (dpStep c d) hr rfl (by rw [hoq2, hoq']) hl
            rw [hrd, hoq'] at this
            exact this

theorem indices_struct_call {fn s : Text} (hf : ∀ c ∈ fn, tokChar c = true) (hbs : ∀ c ∈ s, c ≠ '\\')
    (hbal : (dpScan s ⟨0, 0, false⟩).round = 0) (hclosed : (dpScan s ⟨0, 0, false⟩).oq = false) :
    indicesOfParentheses (fn ++ '(' :: s ++ [')']) = .ok (some (fn.length, fn.length + 1 + s.length)) := by
  unfold indicesOfParentheses
  have e : fn ++ '(' :: s ++ [')'] = fn ++ ('(' :: (s ++ [')'])) := by simp
  rw [e, parenScan_append, parenScan_token fn 0 {} hf rfl rfl]
  simp only [parenScan, show (('(' : Char) == '(') = true from by decide, show (('(' : Char) == '"') = false from by decide,
    show (('(' : Char) == '\\') = false from by decide, Bool.false_eq_true, if_false, if_true]
  rw [parenScan_append]
  obtain ⟨h1, h2, h3, h4⟩ := parenScan_struct s (0 + fn.length + 1)
    { left := (none : Option Nat).orElse fun _ => some (0 + fn.length), nl := 0 + 1 } ⟨0, 0, false⟩ hbs rfl rfl rfl
  rw [hbal] at h4
  rw [hclosed] at h2
  generalize parenScan s (0 + fn.length + 1) { left := (none : Option Nat).orElse fun _ => some (0 + fn.length), nl := 0 + 1 } = r at *
  simp only [parenScan, h1, h2, Bool.false_eq_true, if_false, show ((')' : Char) == '"') = false from by decide,
    show ((')' : Char) == '\\') = false from by decide, show ((')' : Char) == '(') = false from by decide,
    show ((')' : Char) == ')') = true from by decide, if_true, h3]
  have hn : r.nl = r.nr + 1 := by
    simp only at h4
    omega
  simp [hn, Option.orElse]
  omega

/-- C20, COMPLEX-ARGUMENT context, structured texts: `fn(T)` with a token text `fn` (not a variable) and a text `T` as in
    `parseArguments_structured` whose quotes are closed: the argument is `parse_term T`. -/
theorem parseComplex_structured (po : POps) (f : Nat) {fn s : Text} (hf : TokenText fn)
    (hd : fn.head? ≠ some '$') (hlen : fn.length + s.length + 2 ≤ 1000)
    (htrim : trim s = s) (hne : s ≠ []) (hbs : ∀ c ∈ s, c ≠ '\\') (hcm : noTopComma s ⟨0, 0, false⟩ = true)
    (hlast : s.getLast? ≠ some ',')
    (hbal : (dpScan s ⟨0, 0, false⟩).round = 0 ∧ (dpScan s ⟨0, 0, false⟩).square = 0) (hclosed : (dpScan s ⟨0, 0, false⟩).oq = false)
    (hinf : (checkArithmeticInfix s).1 = .none) :
    parseComplex po (f + 2) (fn ++ '(' :: s ++ [')']) =
      (parseTerm po (f + 2) s).bind fun t => .ok (.cplx (.cons (.atom (str fn)) (.cons t .nil))) := by
  have htr : trim (fn ++ '(' :: s ++ [')']) = fn ++ '(' :: s ++ [')'] := by
    obtain ⟨hne', hall⟩ := hf
    cases fn with
    | nil => exact absurd rfl hne'
    | cons a t =>
      apply trim_of_ends (by simp)
      · intro b hb; simp at hb; subst hb; exact (tokChar_facts (hall _ (by simp))).2.2.2.2.2.2.2.2.2
      · intro b hb
        rw [show (a :: t ++ '(' :: s ++ [')']) = (a :: t ++ '(' :: s) ++ [')'] from by simp, List.getLast?_concat] at hb
        simp at hb; subst hb; decide
  unfold parseComplex parseComplexWith
  simp only [htr]
  have hval : validateComplex (fn ++ '(' :: s ++ [')']) = .ok () := by
    obtain ⟨hne', hall⟩ := hf
    cases fn with
    | nil => exact absurd rfl hne'
    | cons a t =>
      have ha := tokChar_facts (hall a (by simp))
      unfold validateComplex
      have hl : ¬ ((a :: t ++ '(' :: s ++ [')']).length > 1000) := by simp at hlen ⊢; omega
      have h1 : (a == '$') = false := by
        have : a ≠ '$' := by intro he; subst he; exact hd rfl
        simpa using this
      simp only [h1, show (a == '(') = false from by simpa using ha.2.2.1, List.cons_append, if_false, Bool.or_self, Bool.false_eq_true]
      rw [if_neg (by simpa using hl)]
  simp only [hval, Res.bind_ok, indices_struct_call hf.2 hbs hbal.1 hclosed]
  have hs1 : slice (fn ++ '(' :: s ++ [')']) 0 fn.length = .ok fn := by
    unfold slice
    have : (0 ≤ fn.length ∧ fn.length ≤ (fn ++ '(' :: s ++ [')']).length) := by simp
    simp only [this, and_self, if_true, List.drop_zero]
    rw [show fn ++ '(' :: s ++ [')'] = fn ++ ('(' :: s ++ [')']) from by simp, List.take_left' rfl]
  have hs2 : slice (fn ++ '(' :: s ++ [')']) (fn.length + 1) (fn.length + 1 + s.length) = .ok s := by
    unfold slice
    have : (fn.length + 1 ≤ fn.length + 1 + s.length ∧ fn.length + 1 + s.length ≤ (fn ++ '(' :: s ++ [')']).length) := by simp; omega
    simp only [this, and_self, if_true]
    rw [show fn ++ '(' :: s ++ [')'] = (fn ++ ['('] ++ s) ++ [')'] from by simp, List.take_left' (by simp; omega)]
    rw [show fn ++ ['('] ++ s = (fn ++ ['(']) ++ s from rfl, List.drop_left' (by simp)]
  simp only [hs1, hs2, Res.bind_ok]
  unfold parseFunctorTerms
  have hne2 : s.isEmpty = false := by cases s with | nil => exact absurd rfl hne | cons a b => rfl
  simp only [hne2, Bool.false_eq_true, if_false, hf.trim, parseArguments_structured po (f + 1) s htrim hne hbs hcm hlast hbal hinf]
  cases parseTerm po (f + 2) s <;> simp [Res.bind, TermList.ofList]

end Suiron.Parse
