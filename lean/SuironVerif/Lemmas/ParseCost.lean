/-
  The work of `group_tokens` is linear in the number of tokens (what defect D18 violated: the fuel of the model
  bounds the DEPTH of a recursion, not the number of calls).  `gtCalls` counts the calls the model function
  makes; a call that returns having stopped at index `stop` has made at most `2·(stop − index) + 1` calls,
  and `stop ≤ tokens + 1`.
-/
import SuironVerif.Lemmas.ParseFuel
namespace Suiron.Parse
open Suiron

/-- the number of calls of `group_tokens_from` that `groupTokens tokens fuel index acc` stands for -/
def gtCalls (tokens : List Token) : Nat → Nat → List Token → Nat
  | 0, _, _ => 1
  | fuel+1, index, acc =>
    match tokens[index]? with
    | none => 1
    | some token =>
      if token.ty == .lparen then
        match groupTokens tokens fuel (index + 1) [] with
        | .ok r => 1 + gtCalls tokens fuel (index + 1) [] + gtCalls tokens fuel (r.2 + 1 + 1) (acc ++ [r.1])
        | _ => 1 + gtCalls tokens fuel (index + 1) []
      else if token.ty == .rparen then 1
      else 1 + gtCalls tokens fuel (index + 1) (acc ++ [token])

theorem gtCalls_linear (tokens : List Token) : ∀ (fuel index : Nat) (acc : List Token) (r : Token × Nat),
    groupTokens tokens fuel index acc = .ok r → gtCalls tokens fuel index acc + 2 * index ≤ 2 * r.2 + 1 := by
  intro fuel
  induction fuel with
  | zero => intro index acc r h; simp [groupTokens] at h
  | succ fuel ih =>
    intro index acc r h
    simp only [groupTokens] at h
    simp only [gtCalls]
    split at h
    · rename_i hn
      obtain ⟨t, _, h⟩ := Res.bind_eq_ok.mp h
      cases h
      simp only [hn]; omega
    · rename_i token htok
      simp only [htok]
      split at h
      · rename_i hlp
        simp only [hlp, if_true]
        obtain ⟨r1, h1, h⟩ := Res.bind_eq_ok.mp h
        simp only [h1]
        have a := ih _ _ _ h1
        have b := ih _ _ _ h
        omega
      · rename_i hlp
        simp only [hlp, Bool.false_eq_true, if_false]
        split at h
        · rename_i hrp
          obtain ⟨t, _, h⟩ := Res.bind_eq_ok.mp h
          cases h
          simp only [hrp, if_true]; omega
        · rename_i hrp
          simp only [hrp, Bool.false_eq_true, if_false]
          have := ih _ _ _ h
          omega

/-- where a call can stop: at once when it starts behind the tokens; otherwise a nested call that ran to the
    end makes its caller go on two tokens further, so the distance is bounded by three times the token count -/
theorem groupTokens_stop_le (tokens : List Token) : ∀ (fuel index : Nat) (acc : List Token) (r : Token × Nat),
    groupTokens tokens fuel index acc = .ok r →
    (tokens.length ≤ index → r.2 = index) ∧ (index ≤ tokens.length → r.2 + 2 * index ≤ 3 * tokens.length) := by
  intro fuel
  induction fuel with
  | zero => intro index acc r h; simp [groupTokens] at h
  | succ fuel ih =>
    intro index acc r h
    simp only [groupTokens] at h
    split at h
    · rename_i hn
      obtain ⟨t, _, h⟩ := Res.bind_eq_ok.mp h; cases h
      have : tokens.length ≤ index := by
        rcases Nat.lt_or_ge index tokens.length with h' | h'
        · have : tokens[index]? = some tokens[index] := List.getElem?_eq_getElem h'
          rw [this] at hn; cases hn
        · exact h'
      exact ⟨fun _ => rfl, fun _ => by simp only; omega⟩
    · rename_i token htok
      have hi : index < tokens.length := by
        rcases Nat.lt_or_ge index tokens.length with h' | h'
        · exact h'
        · have : tokens[index]? = none := by simp; omega
          rw [this] at htok; cases htok
      refine ⟨fun hge => by omega, fun _ => ?_⟩
      split at h
      · obtain ⟨r1, h1, h⟩ := Res.bind_eq_ok.mp h
        have a := (ih _ _ _ h1).2 (by omega)
        have hs := groupTokens_stop tokens _ _ _ _ h1
        rcases Nat.lt_or_ge (r1.2 + 1 + 1) tokens.length with hlt | hge
        · have b := (ih _ _ _ h).2 (by omega)
          omega
        · have b := (ih _ _ _ h).1 hge
          omega
      · split at h
        · obtain ⟨t, _, h⟩ := Res.bind_eq_ok.mp h; cases h
          simp only; omega
        · have := (ih _ _ _ h).2 (by omega)
          omega

/-- LINEAR WORK: `group_tokens` on `n` tokens makes at most `6·n + 1` calls -/
theorem groupTokens_linear (tokens : List Token) (fuel : Nat) (r : Token × Nat)
    (h : groupTokens tokens fuel 0 [] = .ok r) : gtCalls tokens fuel 0 [] ≤ 6 * tokens.length + 1 := by
  have a := gtCalls_linear tokens fuel 0 [] r h
  have b := (groupTokens_stop_le tokens fuel 0 [] r h).2 (Nat.zero_le _)
  omega

end Suiron.Parse
