/-
  The mgu theorems of C06 about the unification model: generality (G) and no false failure (C),
  with respect to the first-order reading of `Spec/FOSubst.lean`.
-/
import SuironVerif.Spec.FOSubst
import SuironVerif.Lemmas.UnifyInv
namespace Suiron.Spec
open Suiron

theorem Solves_bind {θ : Nat → FO} {σ : Subst} {id : Nat} {b : Term} (hs : Solves θ σ)
    (hb : θ id = FO.subst θ (abs b)) : Solves θ (σ.bind id b) := by
  intro i t hi
  by_cases h : i = id
  · subst h; rw [Subst.get_bind_self] at hi; cases hi; exact hb
  · rw [Subst.get_bind_other _ _ _ _ h] at hi; exact hs i t hi

theorem Solves_nil (θ : Nat → FO) : Solves θ [] := by
  intro i t h; simp [Subst.get_nil] at h

theorem Unifies.symm {θ : Nat → FO} {a b : Term} (h : Unifies θ a b) : Unifies θ b a := Eq.symm h

theorem SubstFF_bind {σ : Subst} {id : Nat} {b : Term} (h : SubstFF σ) (hb : Term.FF b = true) : SubstFF (σ.bind id b) := by
  intro i t hi
  by_cases he : i = id
  · subst he; rw [Subst.get_bind_self] at hi; cases hi; exact hb
  · rw [Subst.get_bind_other _ _ _ _ he] at hi; exact h i t hi

/-- GENERALITY: every unifier of `a`, `b` that validates σ also validates the result of `unify a b σ`
    (so the result binds no more than a most general unifier does). -/
theorem unify_general (fo : FloatOps) (θ : Nat → FO) : ∀ f,
    (∀ a b σ σ', unify fo f a b σ = .ok σ' → Term.FF a = true → Term.FF b = true → SubstFF σ →
        Solves θ σ → Unifies θ a b → Solves θ σ' ∧ SubstFF σ') ∧
    (∀ as bs cur acc σ', unifyArgs fo f as bs cur acc = .ok σ' → TermList.FF as = true → TermList.FF bs = true →
        SubstFF cur → SubstFF acc → Solves θ cur → Solves θ acc →
        FOList.subst θ (absL as) = FOList.subst θ (absL bs) → Solves θ σ' ∧ SubstFF σ') ∧
    (∀ x y cur σ', unifyList fo f x y cur = .ok σ' → Term.FF x = true → Term.FF y = true → SubstFF cur →
        Solves θ cur → Unifies θ x y → Solves θ σ' ∧ SubstFF σ') := by
  intro f
  induction f with
  | zero =>
    refine ⟨?_, ?_, ?_⟩
    · intro a b σ σ' h; simp [unify] at h
    · intro as bs cur acc σ' h; simp [unifyArgs] at h
    · intro x y cur σ' h; simp [unifyList] at h
  | succ f ih =>
    obtain ⟨ihU, ihA, ihL⟩ := ih
    refine ⟨?_, ?_, ?_⟩
    · intro a b σ σ' h ha hb hσ hs hu
      unfold unify at h
      split at h
      · cases h; exact ⟨hs, hσ⟩
      split at h
      · cases h; exact ⟨hs, hσ⟩
      split at h
      · cases h; exact ⟨hs, hσ⟩
      · -- atom
        split at h
        · split at h <;> first | (cases h; exact ⟨hs, hσ⟩) | (cases h)
        · exact ihU _ _ _ _ h hb ha hσ hs hu.symm
        · exact ihU _ _ _ _ h hb ha hσ hs hu.symm
        · cases h
      · split at h
        · split at h <;> first | (cases h; exact ⟨hs, hσ⟩) | (cases h)
        · exact ihU _ _ _ _ h hb ha hσ hs hu.symm
        · exact ihU _ _ _ _ h hb ha hσ hs hu.symm
        · cases h
      · split at h
        · split at h <;> first | (cases h; exact ⟨hs, hσ⟩) | (cases h)
        · exact ihU _ _ _ _ h hb ha hσ hs hu.symm
        · exact ihU _ _ _ _ h hb ha hσ hs hu.symm
        · cases h
      · -- var
        rename_i id name _
        split at h
        · cases h
        split at h
        · exact ihU _ _ _ _ h hb ha hσ hs hu.symm
        split at h
        · rename_i t hget
          have ht : Unifies θ t b := by
            unfold Unifies at hu ⊢
            rw [← hs id t hget]
            simpa [abs, FO.subst] using hu
          exact ihU _ _ _ _ h (hσ _ _ hget) hb hσ hs ht
        · obtain ⟨al, _, h⟩ := Res.bind_eq_ok.mp h
          cases al with
          | true => simp at h; cases h; exact ⟨hs, hσ⟩
          | false =>
            simp at h; cases h
            refine ⟨Solves_bind hs ?_, SubstFF_bind hσ hb⟩
            simpa [Unifies, abs, FO.subst] using hu
      · -- cplx
        split at h
        · split at h
          · cases h
          · rename_i as _ bs _ _ _
            have ha' : TermList.FF as = true := by simpa [Term.FF] using ha
            have hb' : TermList.FF bs = true := by simpa [Term.FF] using hb
            have hl : FOList.subst θ (absL as) = FOList.subst θ (absL bs) := by
              simpa [Unifies, abs, FO.subst] using hu
            exact ihA _ _ _ _ _ h ha' hb' hσ (by intro i t hh; simp [Subst.get_nil] at hh) hs (Solves_nil θ) hl
        · exact ihU _ _ _ _ h hb ha hσ hs hu.symm
        · exact ihU _ _ _ _ h hb ha hσ hs hu.symm
        · cases h
      · -- cons
        split at h
        · exact ihL _ _ _ _ h ha hb hσ hs hu
        · exact ihU _ _ _ _ h hb ha hσ hs hu.symm
        · exact ihU _ _ _ _ h hb ha hσ hs hu.symm
        · cases h
      · -- func
        simp [Term.FF] at ha
      · cases h
    · intro as bs cur acc σ' h ha hb hc hac hsc hsa hl
      cases as with
      | nil =>
        cases bs with
        | nil => simp [unifyArgs] at h; cases h; exact ⟨hsa, hac⟩
        | cons b bs => simp [unifyArgs] at h
      | cons a as =>
        cases bs with
        | nil => simp [unifyArgs] at h
        | cons b bs =>
          simp [TermList.FF] at ha hb
          simp only [absL, FOList.subst, FOList.cons.injEq] at hl
          simp only [unifyArgs] at h
          split at h
          · exact ihA _ _ _ _ _ h ha.2 hb.2 hc hac hsc hsa hl.2
          split at h
          · exact ihA _ _ _ _ _ h ha.2 hb.2 hc hac hsc hsa hl.2
          · obtain ⟨s, hu, h⟩ := Res.bind_eq_ok.mp h
            have hs1 := ihU _ _ _ _ hu ha.1 hb.1 hc hsc hl.1
            exact ihA _ _ _ _ _ h ha.2 hb.2 hs1.2 hs1.2 hs1.1 hs1.1 hl.2
    · intro x y cur σ' h hx hy hc hs hu
      simp only [unifyList] at h
      split at h
      · cases h
      split at h
      · rename_i tt tn c1 ttv ot on c2 otv _
        simp [Term.FF] at hx hy
        split at h
        · rename_i hboth
          simp at hboth
          have hu' : Unifies θ tt ot := by simpa [Unifies, abs, hboth.1, hboth.2] using hu
          split at h
          · cases h; exact ⟨hs, hc⟩
          split at h
          · cases h; exact ⟨hs, hc⟩
          · exact ihU _ _ _ _ h hx.1 hy.1 hc hs hu'
        split at h
        · rename_i hnb ht
          have hu' : Unifies θ tt (.cons ot on c2 otv) := by simpa [Unifies, abs, ht] using hu
          exact ihU _ _ _ _ h hx.1 (by simp [Term.FF, hy]) hc hs hu'
        split at h
        · rename_i hnb ht ho
          have htf : ttv = false := by simpa using ht
          have hu' : Unifies θ ot (.cons tt tn c1 ttv) := by
            have := hu.symm
            simpa [Unifies, abs, ho] using this
          exact ihU _ _ _ _ h hy.1 (by simp [Term.FF, hx]) hc hs hu'
        split at h
        · cases h; exact ⟨hs, hc⟩
        · rename_i hnb ht ho hnn
          have htf : ttv = false := by simpa using ht
          have hof : otv = false := by simpa using ho
          subst htf; subst hof
          obtain ⟨s, hu1, h⟩ := Res.bind_eq_ok.mp h
          -- the first-order reading of both cells
          by_cases h1 : tt.isNil = true
          · by_cases h2 : ot.isNil = true
            · simp [h1, h2] at hnn
            · -- lnil against lcons: no unifier
              exfalso
              simp [Unifies, abs, h1, h2, FO.subst] at hu
          · by_cases h2 : ot.isNil = true
            · exfalso
              simp [Unifies, abs, h1, h2, FO.subst] at hu
            · simp [Unifies, abs, h1, h2, FO.subst] at hu
              have hs1 := ihU _ _ _ _ hu1 hx.1 hy.1 hc hs hu.1
              exact ihL _ _ _ _ h hx.2 hy.2 hs1.2 hs1.1 hu.2
      · cases h


open Suiron

theorem canonF_toNat (x : UInt64) : (canonF x).toNat = if x.toNat = 9223372036854775808 then 0 else x.toNat := by
  unfold canonF
  by_cases h : x = negZero
  · subst h; simp [negZero]
  · have : ¬ x.toNat = 9223372036854775808 := by
      intro he; apply h; apply UInt64.toNat_inj.mp; simpa [negZero] using he
    simp [h, this]

/-- IEEE equality of two floats is equality of their canonical bit patterns (both zeros are one number) -/
theorem fEq_iff_canon {x y : UInt64} (hx : fIsNaN x = false) (hy : fIsNaN y = false) :
    fEq x y = true ↔ canonF x = canonF y := by
  simp only [fEq, hx, hy, Bool.not_false, Bool.true_and, beq_iff_eq]
  rw [← UInt64.toNat_inj, canonF_toNat, canonF_toNat]
  unfold fKey fSign
  have hxl := x.toNat_lt
  have hyl := y.toNat_lt
  have e63 : (2:Nat)^63 = 9223372036854775808 := by decide
  simp only [decide_eq_true_eq, e63, ge_iff_le, Int.ofNat_eq_natCast]
  generalize x.toNat = a at *
  generalize y.toNat = b at *
  split <;> split <;> split <;> split <;> omega

mutual
/-- a well-formed, function-free term in operand position: no NaN, no -0.0, no bare `Nil`, every complex
    term has an atom as functor, lists end in the empty node or in a tail-variable cell -/
def goodT : Term → Bool
  | .nil => false
  | .anon => true
  | .atom _ => true
  | .flt b => !fIsNaN b
  | .int _ => true
  | .var _ _ => true
  | .cplx (.cons (.atom _) rest) => goodL rest
  | .cplx _ => false
  | .cons t n _ tv => !tv && ((t.isNil && n.isNil) || (goodT t && goodN n))
  | .func _ _ => false
/-- a list node: an ordinary cell, the empty node, or the tail-variable cell -/
def goodN : Term → Bool
  | .cons t n _ tv => if tv then (goodT t && goodN n) else ((t.isNil && n.isNil) || (goodT t && goodN n))
  | _ => false
def goodL : TermList → Bool
  | .nil => true
  | .cons a as => goodT a && goodL as
end

def SubstGood (σ : Subst) : Prop := ∀ i t, σ.get i = some t → goodT t = true

theorem SubstGood_bind {σ : Subst} {id : Nat} {b : Term} (h : SubstGood σ) (hb : goodT b = true) : SubstGood (σ.bind id b) := by
  intro i t hi
  by_cases he : i = id
  · subst he; rw [Subst.get_bind_self] at hi; cases hi; exact hb
  · rw [Subst.get_bind_other _ _ _ _ he] at hi; exact h i t hi

theorem goodT_cplx {as : TermList} (h : goodT (.cplx as) = true) : goodL as = true := by
  cases as with
  | nil => simp [goodT] at h
  | cons a rest => cases a <;> simp_all [goodT, goodL]

theorem isNil_FF {t : Term} (h : t.isNil = true) : Term.FF t = true := by cases t <;> simp_all [Term.isNil, Term.FF]

mutual
theorem goodT_FF : (t : Term) → goodT t = true → Term.FF t = true
  | .nil, h => by simp [goodT] at h
  | .anon, _ => rfl
  | .atom _, _ => rfl
  | .flt _, _ => rfl
  | .int _, _ => rfl
  | .var _ _, _ => rfl
  | .cplx args, h => by simp only [Term.FF]; exact goodL_FF args (goodT_cplx h)
  | .cons t n c tv, h => by
    simp only [goodT, Bool.and_eq_true, Bool.or_eq_true, Bool.not_eq_true'] at h
    simp only [Term.FF, Bool.and_eq_true]
    rcases h.2 with h2 | h2
    · exact ⟨isNil_FF h2.1, isNil_FF h2.2⟩
    · exact ⟨goodT_FF t h2.1, goodN_FF n h2.2⟩
  | .func _ _, h => by simp [goodT] at h
theorem goodN_FF : (t : Term) → goodN t = true → Term.FF t = true
  | .cons t n c tv, h => by
    simp only [goodN] at h
    simp only [Term.FF, Bool.and_eq_true]
    cases tv with
    | true =>
      simp only [if_true, Bool.and_eq_true] at h
      exact ⟨goodT_FF t h.1, goodN_FF n h.2⟩
    | false =>
      simp only [Bool.false_eq_true, if_false, Bool.or_eq_true, Bool.and_eq_true] at h
      rcases h with h2 | h2
      · exact ⟨isNil_FF h2.1, isNil_FF h2.2⟩
      · exact ⟨goodT_FF t h2.1, goodN_FF n h2.2⟩
  | .nil, h => by simp [goodN] at h
  | .anon, h => by simp [goodN] at h
  | .atom _, h => by simp [goodN] at h
  | .flt _, h => by simp [goodN] at h
  | .int _, h => by simp [goodN] at h
  | .var _ _, h => by simp [goodN] at h
  | .cplx _, h => by simp [goodN] at h
  | .func _ _, h => by simp [goodN] at h
theorem goodL_FF : (l : TermList) → goodL l = true → TermList.FF l = true
  | .nil, _ => rfl
  | .cons a as, h => by
    simp only [goodL, Bool.and_eq_true] at h
    simp only [TermList.FF, Bool.and_eq_true]
    exact ⟨goodT_FF a h.1, goodL_FF as h.2⟩
end

theorem SubstGood_FF {σ : Subst} (h : SubstGood σ) : SubstFF σ := fun i t hi => goodT_FF t (h i t hi)

/-- a list node that is not the tail-variable cell is a term -/
theorem goodN_goodT {t n : Term} {c : Nat} (h : goodN (.cons t n c false) = true) : goodT (.cons t n c false) = true := by
  simpa [goodN, goodT] using h

/-- successful unification of well-formed terms keeps the substitution set well formed -/
theorem unify_good (fo : FloatOps) : ∀ f,
    (∀ a b σ σ', unify fo f a b σ = .ok σ' → goodT a = true → goodT b = true → SubstGood σ → SubstGood σ') ∧
    (∀ as bs cur acc σ', unifyArgs fo f as bs cur acc = .ok σ' → goodL as = true → goodL bs = true →
        SubstGood cur → SubstGood acc → SubstGood σ') ∧
    (∀ x y cur σ', unifyList fo f x y cur = .ok σ' → goodN x = true → goodN y = true → SubstGood cur → SubstGood σ') := by
  intro f
  induction f with
  | zero =>
    refine ⟨?_, ?_, ?_⟩
    · intro a b σ σ' h; simp [unify] at h
    · intro as bs cur acc σ' h; simp [unifyArgs] at h
    · intro x y cur σ' h; simp [unifyList] at h
  | succ f ih =>
    obtain ⟨ihU, ihA, ihL⟩ := ih
    refine ⟨?_, ?_, ?_⟩
    · intro a b σ σ' h ha hb hσ
      unfold unify at h
      split at h
      · cases h; exact hσ
      split at h
      · cases h; exact hσ
      split at h
      · cases h; exact hσ
      · split at h
        · split at h <;> first | (cases h; exact hσ) | (cases h)
        · exact ihU _ _ _ _ h hb ha hσ
        · exact ihU _ _ _ _ h hb ha hσ
        · cases h
      · split at h
        · split at h <;> first | (cases h; exact hσ) | (cases h)
        · exact ihU _ _ _ _ h hb ha hσ
        · exact ihU _ _ _ _ h hb ha hσ
        · cases h
      · split at h
        · split at h <;> first | (cases h; exact hσ) | (cases h)
        · exact ihU _ _ _ _ h hb ha hσ
        · exact ihU _ _ _ _ h hb ha hσ
        · cases h
      · split at h
        · cases h
        split at h
        · exact ihU _ _ _ _ h hb ha hσ
        split at h
        · rename_i t hget
          exact ihU _ _ _ _ h (hσ _ _ hget) hb hσ
        · obtain ⟨al, _, h⟩ := Res.bind_eq_ok.mp h
          cases al with
          | true => simp at h; cases h; exact hσ
          | false => simp at h; cases h; exact SubstGood_bind hσ hb
      · split at h
        · split at h
          · cases h
          · exact ihA _ _ _ _ _ h (goodT_cplx ha) (goodT_cplx hb) hσ
              (by intro i t hh; simp [Subst.get_nil] at hh)
        · exact ihU _ _ _ _ h hb ha hσ
        · exact ihU _ _ _ _ h hb ha hσ
        · cases h
      · split at h
        · rename_i _ t1 n1 c1 tv1 _ t2 n2 c2 tv2 _ _
          have h1 : tv1 = false := by simp [goodT] at ha; exact ha.1
          have h2 : tv2 = false := by simp [goodT] at hb; exact hb.1
          subst h1; subst h2
          exact ihL _ _ _ _ h (by simpa [goodN, goodT] using ha) (by simpa [goodN, goodT] using hb) hσ
        · exact ihU _ _ _ _ h hb ha hσ
        · exact ihU _ _ _ _ h hb ha hσ
        · cases h
      · simp [goodT] at ha
      · cases h
    · intro as bs cur acc σ' h ha hb hc hac
      cases as with
      | nil =>
        cases bs with
        | nil => simp [unifyArgs] at h; cases h; exact hac
        | cons b bs => simp [unifyArgs] at h
      | cons a as =>
        cases bs with
        | nil => simp [unifyArgs] at h
        | cons b bs =>
          simp [goodL] at ha hb
          simp only [unifyArgs] at h
          split at h
          · exact ihA _ _ _ _ _ h ha.2 hb.2 hc hac
          split at h
          · exact ihA _ _ _ _ _ h ha.2 hb.2 hc hac
          · obtain ⟨s, hu, h⟩ := Res.bind_eq_ok.mp h
            have hs1 := ihU _ _ _ _ hu ha.1 hb.1 hc
            exact ihA _ _ _ _ _ h ha.2 hb.2 hs1 hs1
    · intro x y cur σ' h hx hy hc
      simp only [unifyList] at h
      split at h
      · cases h
      split at h
      · rename_i tt tn c1 ttv ot on c2 otv _
        split at h
        · rename_i hboth
          simp at hboth
          obtain ⟨rfl, rfl⟩ := hboth
          simp [goodN] at hx hy
          split at h
          · cases h; exact hc
          split at h
          · cases h; exact hc
          · exact ihU _ _ _ _ h hx.1 hy.1 hc
        split at h
        · rename_i hnb ht
          have : otv = false := by cases otv <;> simp_all
          subst this; subst ht
          simp [goodN] at hx
          exact ihU _ _ _ _ h hx.1 (goodN_goodT hy) hc
        split at h
        · rename_i hnb ht ho
          have : ttv = false := by simpa using ht
          subst this; subst ho
          simp [goodN] at hy
          exact ihU _ _ _ _ h hy.1 (goodN_goodT hx) hc
        split at h
        · cases h; exact hc
        · rename_i hnb ht ho hnn
          have htf : ttv = false := by simpa using ht
          have hof : otv = false := by simpa using ho
          subst htf; subst hof
          obtain ⟨s, hu1, h⟩ := Res.bind_eq_ok.mp h
          simp [goodN] at hx hy
          have hnilL : ∀ (u v : Term) (s0 : Subst), (u.isNil = true ∨ v.isNil = true) → unifyList fo f u v s0 ≠ .ok σ' := by
            intro u v s0 huv
            cases f with
            | zero => simp [unifyList]
            | succ f' =>
              simp only [unifyList]
              have : (u.isNil || v.isNil) = true := by rcases huv with h' | h' <;> simp [h']
              simp [this]
          rcases hx with hx | hx
          · exact absurd h (hnilL _ _ _ (Or.inl hx.2))
          · rcases hy with hy | hy
            · exact absurd h (hnilL _ _ _ (Or.inr hy.2))
            · exact ihL _ _ _ _ h hx.2 hy.2 (ihU _ _ _ _ hu1 hx.1 hy.1 hc)
      · cases h


open Suiron

theorem Res.bind_eq_fail {α β} {r : Res α} {g : α → Res β} :
    r.bind g = .fail ↔ r = .fail ∨ ∃ x, r = .ok x ∧ g x = .fail := by
  cases r <;> simp [Res.bind]

theorem fEq_self {x : UInt64} (h : fIsNaN x = false) : fEq x x = true := by simp [fEq, h]

mutual
theorem absL_length : (l m : TermList) → (θ : Nat → FO) → FOList.subst θ (absL l) = FOList.subst θ (absL m) → l.length = m.length
  | .nil, .nil, θ, _ => rfl
  | .nil, .cons _ _, θ, h => by simp [absL, FOList.subst] at h
  | .cons _ _, .nil, θ, h => by simp [absL, FOList.subst] at h
  | .cons a as, .cons b bs, θ, h => by
    simp only [absL, FOList.subst, FOList.cons.injEq] at h
    simp only [TermList.length]
    rw [absL_length as bs θ h.2]
end

theorem subst_abs_cons (θ : Nat → FO) {t n : Term} {c : Nat} {tv : Bool} (h : goodT (.cons t n c tv) = true) :
    FO.subst θ (abs (.cons t n c tv)) = .lnil ∨
    FO.subst θ (abs (.cons t n c tv)) = .lcons (FO.subst θ (abs t)) (FO.subst θ (abs n)) := by
  simp only [goodT, Bool.and_eq_true, Bool.not_eq_true'] at h
  simp only [abs, h.1, Bool.false_eq_true, if_false]
  by_cases hn : t.isNil = true
  · left; simp [hn, FO.subst]
  · right; simp [hn, FO.subst]

theorem aliased_ne_fail : ∀ (f : Nat) (σ : Subst) (id : Nat) (t : Term), aliased f σ id t ≠ .fail := by
  intro f
  induction f with
  | zero => intros; simp [aliased]
  | succ f ih =>
    intro σ id t
    simp only [aliased]
    split
    · split
      · simp
      · split
        · exact ih _ _ _
        · simp
    · simp

theorem goodN_isNil {x : Term} (h : goodN x = true) : x.isNil = false := by
  cases x <;> simp [goodN, Term.isNil] at h ⊢

/-- NO FALSE FAILURE: if some unifier of `a`, `b` validates σ, `unify a b σ` does not fail. -/
theorem unify_complete (fo : FloatOps) (θ : Nat → FO) : ∀ f,
    (∀ a b σ, unify fo f a b σ = .fail → goodT a = true → goodT b = true → SubstGood σ →
        Solves θ σ → Unifies θ a b → False) ∧
    (∀ as bs cur acc, unifyArgs fo f as bs cur acc = .fail → goodL as = true → goodL bs = true →
        SubstGood cur → SubstGood acc → Solves θ cur → Solves θ acc →
        FOList.subst θ (absL as) = FOList.subst θ (absL bs) → False) ∧
    (∀ x y cur, unifyList fo f x y cur = .fail → goodN x = true → goodN y = true → SubstGood cur →
        Solves θ cur → Unifies θ x y → False) := by
  intro f
  induction f with
  | zero =>
    refine ⟨?_, ?_, ?_⟩
    · intro a b σ h; simp [unify] at h
    · intro as bs cur acc h; simp [unifyArgs] at h
    · intro x y cur h; simp [unifyList] at h
  | succ f ih =>
    obtain ⟨ihU, ihA, ihL⟩ := ih
    refine ⟨?_, ?_, ?_⟩
    · intro a b σ h ha hb hσ hs hu
      unfold unify at h
      split at h
      · cases h
      split at h
      · cases h
      split at h
      · cases h
      · -- atom
        split at h
        · split at h
          · cases h
          · rename_i hne
            apply hne
            simpa [Unifies, abs, FO.subst] using hu
        · exact ihU _ _ _ h hb ha hσ hs hu.symm
        · simp [goodT] at hb
        · cases b <;> simp_all [Unifies, abs, FO.subst, goodT, Term.isAnon]
          split at hu <;> simp [FO.subst] at hu
      · -- flt
        split at h
        · split at h
          · cases h
          · rename_i hne
            have hxy := hu
            simp [Unifies, abs, FO.subst] at hxy
            simp [goodT] at ha hb
            exact hne ((fEq_iff_canon ha hb).mpr hxy)
        · exact ihU _ _ _ h hb ha hσ hs hu.symm
        · simp [goodT] at hb
        · cases b <;> simp_all [Unifies, abs, FO.subst, goodT, Term.isAnon]
          split at hu <;> simp [FO.subst] at hu
      · -- int
        split at h
        · split at h
          · cases h
          · rename_i hne
            apply hne
            simpa [Unifies, abs, FO.subst] using hu
        · exact ihU _ _ _ h hb ha hσ hs hu.symm
        · simp [goodT] at hb
        · cases b <;> simp_all [Unifies, abs, FO.subst, goodT, Term.isAnon]
          split at hu <;> simp [FO.subst] at hu
      · -- var
        rename_i id name _
        split at h
        · cases h
        split at h
        · rename_i hfun
          cases b <;> simp_all [Term.isFunc, goodT]
        split at h
        · rename_i t hget
          have ht : Unifies θ t b := by
            unfold Unifies at hu ⊢
            rw [← hs id t hget]
            simpa [abs, FO.subst] using hu
          exact ihU _ _ _ h (hσ _ _ hget) hb hσ hs ht
        · rcases Res.bind_eq_fail.mp h with h' | ⟨al, _, h'⟩
          · exact absurd h' (aliased_ne_fail _ _ _ _)
          · cases al <;> simp at h'
      · -- cplx
        split at h
        · split at h
          · rename_i hlen
            apply hlen
            have hl := hu
            simp [Unifies, abs, FO.subst] at hl
            exact absL_length _ _ θ hl
          · have hl := hu
            simp [Unifies, abs, FO.subst] at hl
            exact ihA _ _ _ _ h (goodT_cplx ha) (goodT_cplx hb) hσ
              (by intro i t hh; simp [Subst.get_nil] at hh) hs (Solves_nil θ) hl
        · exact ihU _ _ _ h hb ha hσ hs hu.symm
        · simp [goodT] at hb
        · cases b <;> simp_all [Unifies, abs, FO.subst, goodT, Term.isAnon]
          split at hu <;> simp [FO.subst] at hu
      · -- cons
        split at h
        · rename_i _ t1 n1 c1 tv1 _ t2 n2 c2 tv2 _ _
          have h1 : tv1 = false := by simp [goodT] at ha; exact ha.1
          have h2 : tv2 = false := by simp [goodT] at hb; exact hb.1
          subst h1; subst h2
          exact ihL _ _ _ h (by simpa [goodN, goodT] using ha) (by simpa [goodN, goodT] using hb) hσ hs hu
        · exact ihU _ _ _ h hb ha hσ hs hu.symm
        · simp [goodT] at hb
        · rename_i hanon _ _ _ _ _ _ hcons hvar hfunc
          have key : ∀ X : FO, (X = .lnil ∨ ∃ p q, X = .lcons p q) → X = FO.subst θ (abs b) → False := by
            intro X hX hXb
            cases b with
            | nil => rcases hX with h1 | ⟨p, q, h1⟩ <;> simp [h1, abs, FO.subst] at hXb
            | anon => exact absurd (rfl : Term.anon.isAnon = true) (by assumption)
            | atom s => rcases hX with h1 | ⟨p, q, h1⟩ <;> simp [h1, abs, FO.subst] at hXb
            | flt x => rcases hX with h1 | ⟨p, q, h1⟩ <;> simp [h1, abs, FO.subst] at hXb
            | int x => rcases hX with h1 | ⟨p, q, h1⟩ <;> simp [h1, abs, FO.subst] at hXb
            | var i n => exact hvar _ _ rfl
            | cplx args => rcases hX with h1 | ⟨p, q, h1⟩ <;> simp [h1, abs, FO.subst] at hXb
            | cons t n c tv => exact hcons _ _ _ _ rfl
            | func nm args => exact hfunc _ _ rfl
          rcases subst_abs_cons θ ha with hA | hA
          · exact key _ (Or.inl hA) hu
          · exact key _ (Or.inr ⟨_, _, hA⟩) hu
      · simp [goodT] at ha
      · simp [goodT] at ha
    · intro as bs cur acc h ha hb hc hac hsc hsa hl
      cases as with
      | nil =>
        cases bs with
        | nil => simp [unifyArgs] at h
        | cons b bs => simp [unifyArgs] at h
      | cons a as =>
        cases bs with
        | nil => simp [unifyArgs] at h
        | cons b bs =>
          simp [goodL] at ha hb
          simp only [absL, FOList.subst, FOList.cons.injEq] at hl
          simp only [unifyArgs] at h
          split at h
          · exact ihA _ _ _ _ h ha.2 hb.2 hc hac hsc hsa hl.2
          split at h
          · exact ihA _ _ _ _ h ha.2 hb.2 hc hac hsc hsa hl.2
          · rcases Res.bind_eq_fail.mp h with h' | ⟨s, hu, h'⟩
            · exact ihU _ _ _ h' ha.1 hb.1 hc hsc hl.1
            · have hg := (unify_good fo f).1 _ _ _ _ hu ha.1 hb.1 hc
              have hs1 := ((unify_general fo θ f).1 _ _ _ _ hu (goodT_FF _ ha.1) (goodT_FF _ hb.1) (SubstGood_FF hc) hsc hl.1).1
              exact ihA _ _ _ _ h' ha.2 hb.2 hg hg hs1 hs1 hl.2
    · intro x y cur h hx hy hc hs hu
      simp only [unifyList] at h
      split at h
      · rename_i hnil
        simp [goodN_isNil hx, goodN_isNil hy] at hnil
      split at h
      · rename_i tt tn c1 ttv ot on c2 otv _
        split at h
        · rename_i hboth
          simp at hboth
          obtain ⟨rfl, rfl⟩ := hboth
          simp [goodN] at hx hy
          have hu' : Unifies θ tt ot := by simpa [Unifies, abs] using hu
          split at h
          · cases h
          split at h
          · cases h
          · exact ihU _ _ _ h hx.1 hy.1 hc hs hu'
        split at h
        · rename_i hnb ht
          have : otv = false := by cases otv <;> simp_all
          subst this; subst ht
          simp [goodN] at hx
          have hu' : Unifies θ tt (.cons ot on c2 false) := by simpa [Unifies, abs] using hu
          exact ihU _ _ _ h hx.1 (goodN_goodT hy) hc hs hu'
        split at h
        · rename_i hnb ht ho
          have : ttv = false := by simpa using ht
          subst this; subst ho
          simp [goodN] at hy
          have hu' : Unifies θ ot (.cons tt tn c1 false) := by
            have := hu.symm
            simpa [Unifies, abs] using this
          exact ihU _ _ _ h hy.1 (goodN_goodT hx) hc hs hu'
        split at h
        · cases h
        · rename_i hnb ht ho hnn
          have htf : ttv = false := by simpa using ht
          have hof : otv = false := by simpa using ho
          subst htf; subst hof
          simp [goodN] at hx hy
          by_cases h1 : tt.isNil = true
          · by_cases h2 : ot.isNil = true
            · simp [h1, h2] at hnn
            · simp [Unifies, abs, h1, h2, FO.subst] at hu
          · by_cases h2 : ot.isNil = true
            · simp [Unifies, abs, h1, h2, FO.subst] at hu
            · simp [Unifies, abs, h1, h2, FO.subst] at hu
              have hx' : goodT tt = true ∧ goodN tn = true := by
                rcases hx with hx | hx
                · exact absurd hx.1 h1
                · exact hx
              have hy' : goodT ot = true ∧ goodN on = true := by
                rcases hy with hy | hy
                · exact absurd hy.1 h2
                · exact hy
              rcases Res.bind_eq_fail.mp h with h' | ⟨s, hu1, h'⟩
              · exact ihU _ _ _ h' hx'.1 hy'.1 hc hs hu.1
              · have hg := (unify_good fo f).1 _ _ _ _ hu1 hx'.1 hy'.1 hc
                have hs1 := ((unify_general fo θ f).1 _ _ _ _ hu1 (goodT_FF _ hx'.1) (goodT_FF _ hy'.1) (SubstGood_FF hc) hs hu.1).1
                exact ihL _ _ _ h' hx'.2 hy'.2 hg hs1 hu.2
      · cases h


open Suiron

mutual
/-- anonymous-variable free -/
def Term.AF : Term → Bool
  | .anon => false
  | .cplx args => TermList.AF args
  | .cons t n _ _ => Term.AF t && Term.AF n
  | .func _ args => TermList.AF args
  | _ => true
def TermList.AF : TermList → Bool
  | .nil => true
  | .cons a as => Term.AF a && TermList.AF as
end

def SubstAF (σ : Subst) : Prop := ∀ i t, σ.get i = some t → Term.AF t = true

def Extends (σ σ' : Subst) : Prop := ∀ i t, σ.get i = some t → σ'.get i = some t

theorem Extends.refl (σ : Subst) : Extends σ σ := fun _ _ h => h
theorem Extends.trans {a b c : Subst} (h1 : Extends a b) (h2 : Extends b c) : Extends a c := fun i t h => h2 i t (h1 i t h)
theorem Solves.mono {θ : Nat → FO} {σ σ' : Subst} (h : Solves θ σ') (he : Extends σ σ') : Solves θ σ :=
  fun i t hi => h i t (he i t hi)

theorem beq_isNil : ∀ (a b : Term), a.beq b = true → a.isNil = b.isNil := by
  intro a b h
  cases a <;> cases b <;> simp_all [Term.beq, Term.isNil]

mutual
theorem beq_abs : (a b : Term) → a.beq b = true → abs a = abs b
  | .nil, b, h => by cases b <;> simp_all [Term.beq, abs]
  | .anon, b, h => by cases b <;> simp_all [Term.beq, abs]
  | .atom s, b, h => by cases b <;> simp_all [Term.beq, abs]
  | .flt x, b, h => by
    cases b <;> simp_all [Term.beq, abs]
    rename_i y
    have hx : fIsNaN x = false := by simp [fEq] at h; exact h.1.1
    have hy : fIsNaN y = false := by simp [fEq] at h; exact h.1.2
    exact (fEq_iff_canon hx hy).mp h
  | .int i, b, h => by cases b <;> simp_all [Term.beq, abs]
  | .var i n, b, h => by cases b <;> simp_all [Term.beq, abs]
  | .cplx as, b, h => by
    cases b <;> simp_all [Term.beq, abs]
    exact beqL_abs _ _ h
  | .cons t n c tv, b, h => by
    cases b with
    | cons t' n' c' tv' =>
      simp only [Term.beq, Bool.and_eq_true, beq_iff_eq] at h
      obtain ⟨⟨⟨h1, h2⟩, h3⟩, h4⟩ := h
      simp only [abs, h4, beq_abs t t' h1, beq_abs n n' h2, beq_isNil t t' h1]
    | _ => simp [Term.beq] at h
  | .func f as, b, h => by cases b <;> simp_all [Term.beq, abs]
theorem beqL_abs : (a b : TermList) → TermList.beq a b = true → absL a = absL b
  | .nil, .nil, _ => rfl
  | .nil, .cons _ _, h => by simp [TermList.beq] at h
  | .cons _ _, .nil, h => by simp [TermList.beq] at h
  | .cons x xs, .cons y ys, h => by
    simp only [TermList.beq, Bool.and_eq_true] at h
    simp only [absL, beq_abs x y h.1, beqL_abs xs ys h.2]
end

/-- a chain of bindings from `b` to the unbound variable `id`: every θ that validates σ maps `b` to `θ id` -/
theorem aliased_true (θ : Nat → FO) : ∀ (f : Nat) (σ : Subst) (id : Nat) (b : Term),
    aliased f σ id b = .ok true → Solves θ σ → FO.subst θ (abs b) = θ id := by
  intro f
  induction f with
  | zero => intro σ id b h; simp [aliased] at h
  | succ f ih =>
    intro σ id b h hs
    simp only [aliased] at h
    split at h
    · rename_i j nm
      split at h
      · rename_i hj; subst hj; simp [abs, FO.subst]
      · split at h
        · rename_i e he
          have := ih σ id e h hs
          simp only [abs, FO.subst]
          rw [hs j e he]; exact this
        · cases h
    · cases h


open Suiron

theorem SubstAF_bind {σ : Subst} {id : Nat} {b : Term} (h : SubstAF σ) (hb : Term.AF b = true) : SubstAF (σ.bind id b) := by
  intro i t hi
  by_cases he : i = id
  · subst he; rw [Subst.get_bind_self] at hi; cases hi; exact hb
  · rw [Subst.get_bind_other _ _ _ _ he] at hi; exact h i t hi

theorem Extends_bind {σ : Subst} {id : Nat} {b : Term} (h : σ.get id = none) : Extends σ (σ.bind id b) := by
  intro i t hi
  by_cases he : i = id
  · subst he; rw [h] at hi; cases hi
  · rw [Subst.get_bind_other _ _ _ _ he]; exact hi

theorem anon_AF {t : Term} (h : Term.AF t = true) : t.isAnon = false := by
  cases t <;> simp_all [Term.AF, Term.isAnon]

theorem unify_atom_atom {fo : FloatOps} {f : Nat} {x y : String} {σ s : Subst}
    (h : unify fo f (.atom x) (.atom y) σ = .ok s) : s = σ ∧ x = y := by
  cases f with
  | zero => simp [unify] at h
  | succ f =>
    unfold unify at h
    simp only [Term.beq, Term.isAnon] at h
    by_cases he : x = y
    · simp [he] at h; exact ⟨h.symm, he⟩
    · simp [he] at h

/-- SOUNDNESS (solution-set form): every θ that validates the result of `unify a b σ` unifies `a` and `b`;
    and the result extends σ. -/
theorem unify_sound (fo : FloatOps) : ∀ f,
    (∀ a b σ σ', unify fo f a b σ = .ok σ' → goodT a = true → goodT b = true → SubstGood σ →
        Term.AF a = true → Term.AF b = true → SubstAF σ →
        Extends σ σ' ∧ SubstAF σ' ∧ ∀ θ, Solves θ σ' → Unifies θ a b) ∧
    (∀ as bs cur σ', unifyArgs fo f as bs cur cur = .ok σ' → goodL as = true → goodL bs = true → SubstGood cur →
        TermList.AF as = true → TermList.AF bs = true → SubstAF cur →
        Extends cur σ' ∧ SubstAF σ' ∧ ∀ θ, Solves θ σ' → FOList.subst θ (absL as) = FOList.subst θ (absL bs)) ∧
    (∀ x y cur σ', unifyList fo f x y cur = .ok σ' → goodN x = true → goodN y = true → SubstGood cur →
        Term.AF x = true → Term.AF y = true → SubstAF cur →
        Extends cur σ' ∧ SubstAF σ' ∧ ∀ θ, Solves θ σ' → Unifies θ x y) := by
  intro f
  induction f using Nat.strongRecOn with
  | ind f ih =>
  cases f with
  | zero =>
    refine ⟨?_, ?_, ?_⟩
    · intro a b σ σ' h; simp [unify] at h
    · intro as bs cur σ' h; simp [unifyArgs] at h
    · intro x y cur σ' h; simp [unifyList] at h
  | succ f =>
    obtain ⟨ihU, ihA, ihL⟩ := ih f (Nat.lt_succ_self f)
    have swap : ∀ {a b : Term} {σ σ' : Subst}, unify fo f b a σ = .ok σ' → goodT a = true → goodT b = true → SubstGood σ →
        Term.AF a = true → Term.AF b = true → SubstAF σ →
        Extends σ σ' ∧ SubstAF σ' ∧ ∀ θ, Solves θ σ' → Unifies θ a b := by
      intro a b σ σ' h ha hb hσ fa fb fσ
      have := ihU _ _ _ _ h hb ha hσ fb fa fσ
      exact ⟨this.1, this.2.1, fun θ hs => (this.2.2 θ hs).symm⟩
    refine ⟨?_, ?_, ?_⟩
    · intro a b σ σ' h ha hb hσ fa fb fσ
      have same : σ' = σ → a.beq b = true → Extends σ σ' ∧ SubstAF σ' ∧ ∀ θ, Solves θ σ' → Unifies θ a b := by
        intro e hbeq; subst e
        exact ⟨Extends.refl _, fσ, fun θ _ => by unfold Unifies; rw [beq_abs a b hbeq]⟩
      unfold unify at h
      split at h
      · rename_i hbeq; cases h; exact same rfl hbeq
      split at h
      · rename_i hban; rw [anon_AF fb] at hban; cases hban
      split at h
      · simp [Term.AF] at fa
      · -- atom
        split at h
        · split at h
          · rename_i he; cases h; subst he
            exact ⟨Extends.refl _, fσ, fun θ _ => by simp [Unifies]⟩
          · cases h
        · exact swap h ha hb hσ fa fb fσ
        · exact swap h ha hb hσ fa fb fσ
        · cases h
      · -- flt
        split at h
        · split at h
          · rename_i he
            cases h
            refine ⟨Extends.refl _, fσ, fun θ _ => ?_⟩
            simp [Unifies, abs, FO.subst, (fEq_iff_canon (by simpa [goodT] using ha) (by simpa [goodT] using hb)).mp he]
          · cases h
        · exact swap h ha hb hσ fa fb fσ
        · exact swap h ha hb hσ fa fb fσ
        · cases h
      · -- int
        split at h
        · split at h
          · rename_i he; cases h; subst he
            exact ⟨Extends.refl _, fσ, fun θ _ => by simp [Unifies]⟩
          · cases h
        · exact swap h ha hb hσ fa fb fσ
        · exact swap h ha hb hσ fa fb fσ
        · cases h
      · -- var
        rename_i id name _
        split at h
        · cases h
        split at h
        · exact swap h ha hb hσ fa fb fσ
        split at h
        · rename_i t hget
          have := ihU _ _ _ _ h (hσ _ _ hget) hb hσ (fσ _ _ hget) fb fσ
          refine ⟨this.1, this.2.1, fun θ hs => ?_⟩
          have h1 := this.2.2 θ hs
          have h2 : θ id = FO.subst θ (abs t) := hs id t (this.1 id t hget)
          unfold Unifies at h1 ⊢
          simp only [abs, FO.subst]
          rw [h2]; exact h1
        · rename_i hget
          obtain ⟨al, hal, h⟩ := Res.bind_eq_ok.mp h
          cases al with
          | true =>
            simp at h; cases h
            refine ⟨Extends.refl _, fσ, fun θ hs => ?_⟩
            have := aliased_true θ f σ id b hal hs
            unfold Unifies; simp only [abs, FO.subst]; exact this.symm
          | false =>
            simp at h; cases h
            refine ⟨Extends_bind hget, SubstAF_bind fσ fb, fun θ hs => ?_⟩
            unfold Unifies; simp only [abs, FO.subst]
            exact hs id b (Subst.get_bind_self _ _ _)
      · -- cplx
        split at h
        · split at h
          · cases h
          · rename_i _ as _ bs _ _ hlen
            cases as with
            | nil => simp [goodT] at ha
            | cons a0 as =>
              cases bs with
              | nil => simp [goodT] at hb
              | cons b0 bs =>
                cases a0 <;> simp [goodT] at ha
                cases b0 <;> simp [goodT] at hb
                simp [Term.AF, TermList.AF] at fa fb
                cases f with
                | zero => simp [unifyArgs] at h
                | succ f' =>
                  simp only [unifyArgs, Term.isAnon] at h
                  simp at h
                  obtain ⟨s, hu, hrest⟩ := Res.bind_eq_ok.mp h
                  obtain ⟨ihU', ihA', _⟩ := ih f' (by omega)
                  obtain ⟨hsσ, hxy⟩ := unify_atom_atom hu
                  subst hsσ
                  have := ihA' _ _ _ _ hrest ha hb hσ fa fb fσ
                  refine ⟨this.1, this.2.1, fun θ hs => ?_⟩
                  have h2 := this.2.2 θ hs
                  simp [Unifies, abs, absL, FO.subst, FOList.subst, h2, hxy]
        · exact swap h ha hb hσ fa fb fσ
        · exact swap h ha hb hσ fa fb fσ
        · cases h
      · -- cons
        split at h
        · rename_i _ t1 n1 c1 tv1 _ t2 n2 c2 tv2 _ _
          have h1 : tv1 = false := by simp [goodT] at ha; exact ha.1
          have h2 : tv2 = false := by simp [goodT] at hb; exact hb.1
          subst h1; subst h2
          exact ihL _ _ _ _ h (by simpa [goodN, goodT] using ha) (by simpa [goodN, goodT] using hb) hσ fa fb fσ
        · exact swap h ha hb hσ fa fb fσ
        · exact swap h ha hb hσ fa fb fσ
        · cases h
      · simp [goodT] at ha
      · cases h
    · intro as bs cur σ' h ha hb hc fa fb fc
      cases as with
      | nil =>
        cases bs with
        | nil => simp [unifyArgs] at h; cases h; exact ⟨Extends.refl _, fc, fun θ _ => rfl⟩
        | cons b bs => simp [unifyArgs] at h
      | cons a as =>
        cases bs with
        | nil => simp [unifyArgs] at h
        | cons b bs =>
          simp [goodL] at ha hb
          simp [TermList.AF] at fa fb
          simp only [unifyArgs, anon_AF fa.1, anon_AF fb.1, Bool.false_eq_true, if_false] at h
          obtain ⟨s, hu, hrest⟩ := Res.bind_eq_ok.mp h
          have h1 := ihU _ _ _ _ hu ha.1 hb.1 hc fa.1 fb.1 fc
          have hg := (unify_good fo f).1 _ _ _ _ hu ha.1 hb.1 hc
          have h2 := ihA _ _ _ _ hrest ha.2 hb.2 hg fa.2 fb.2 h1.2.1
          refine ⟨h1.1.trans h2.1, h2.2.1, fun θ hs => ?_⟩
          have e1 := h1.2.2 θ (hs.mono h2.1)
          have e2 := h2.2.2 θ hs
          simp only [absL, FOList.subst]
          rw [e2]; unfold Unifies at e1; rw [e1]
    · intro x y cur σ' h hx hy hc fx fy fc
      simp only [unifyList] at h
      split at h
      · cases h
      split at h
      · rename_i tt tn c1 ttv ot on c2 otv _
        simp [Term.AF] at fx fy
        split at h
        · rename_i hboth
          simp at hboth
          obtain ⟨rfl, rfl⟩ := hboth
          simp [goodN] at hx hy
          simp only [anon_AF fx.1, anon_AF fy.1, Bool.false_eq_true, if_false] at h
          have := ihU _ _ _ _ h hx.1 hy.1 hc fx.1 fy.1 fc
          exact ⟨this.1, this.2.1, fun θ hs => by simpa [Unifies, abs] using this.2.2 θ hs⟩
        split at h
        · rename_i hnb ht
          have : otv = false := by cases otv <;> simp_all
          subst this; subst ht
          simp [goodN] at hx
          have := ihU _ _ _ _ h hx.1 (goodN_goodT hy) hc fx.1 (by simp [Term.AF, fy]) fc
          exact ⟨this.1, this.2.1, fun θ hs => by simpa [Unifies, abs] using this.2.2 θ hs⟩
        split at h
        · rename_i hnb ht ho
          have : ttv = false := by simpa using ht
          subst this; subst ho
          simp [goodN] at hy
          have := ihU _ _ _ _ h hy.1 (goodN_goodT hx) hc fy.1 (by simp [Term.AF, fx]) fc
          exact ⟨this.1, this.2.1, fun θ hs => by
            have := (this.2.2 θ hs).symm
            simpa [Unifies, abs] using this⟩
        split at h
        · rename_i hnb ht ho hnn
          have htf : ttv = false := by simpa using ht
          have hof : otv = false := by simpa using ho
          subst htf; subst hof
          cases h
          simp at hnn
          exact ⟨Extends.refl _, fc, fun θ _ => by simp [Unifies, abs, hnn.1, hnn.2]⟩
        · rename_i hnb ht ho hnn
          have htf : ttv = false := by simpa using ht
          have hof : otv = false := by simpa using ho
          subst htf; subst hof
          obtain ⟨s, hu1, hrest⟩ := Res.bind_eq_ok.mp h
          simp [goodN] at hx hy
          have hnilL : ∀ (u v : Term) (s0 : Subst), (u.isNil = true ∨ v.isNil = true) → unifyList fo f u v s0 ≠ .ok σ' := by
            intro u v s0 huv
            cases f with
            | zero => simp [unifyList]
            | succ f' =>
              simp only [unifyList]
              have : (u.isNil || v.isNil) = true := by rcases huv with h' | h' <;> simp [h']
              simp [this]
          rcases hx with hx | hx
          · exact absurd hrest (hnilL _ _ _ (Or.inl hx.2))
          · rcases hy with hy | hy
            · exact absurd hrest (hnilL _ _ _ (Or.inr hy.2))
            · have h1 := ihU _ _ _ _ hu1 hx.1 hy.1 hc fx.1 fy.1 fc
              have hg := (unify_good fo f).1 _ _ _ _ hu1 hx.1 hy.1 hc
              have h2 := ihL _ _ _ _ hrest hx.2 hy.2 hg fx.2 fy.2 h1.2.1
              refine ⟨h1.1.trans h2.1, h2.2.1, fun θ hs => ?_⟩
              have e1 := h1.2.2 θ (hs.mono h2.1)
              have e2 := h2.2.2 θ hs
              have n1 : tt.isNil = false := by cases tt <;> simp_all [goodT, Term.isNil]
              have n2 : ot.isNil = false := by cases ot <;> simp_all [goodT, Term.isNil]
              unfold Unifies at e1 e2 ⊢
              simp [abs, n1, n2, FO.subst, e1, e2]
      · cases h

end Suiron.Spec
