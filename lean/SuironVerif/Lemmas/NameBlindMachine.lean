/-
  C11 at the level of runs: THE REFERENCE MACHINE IS BLIND TO THE NAMES OF VARIABLES.

  `KBRel kb kb'`: clause for clause, what `get_rule` hands out from `kb'` is what it hands out from `kb` with the names of
  the fresh variables rewritten (injectively for each id) — that is what consistently renaming the variables of each rule
  does (`Lemmas/NameBlindKB.lean`).  Then every step of the machine of `Spec/PureMachine.lean` on `kb` is a step on `kb'`
  from the renamed configuration to the renamed configuration (`step_sim`), hence every run, and the observable behaviour —
  the sequence of answers, each with the text written so far — is the same with the bindings renamed (`run_sim`).
  Fragment: calls with atom functors, `,`, `;`, `not`; no built-in predicates and no function terms (`goodG`): their
  output prints variable names.
-/
import SuironVerif.Lemmas.NameBlind
import SuironVerif.Lemmas.NameBlindBip
import SuironVerif.Spec.PureMachine
namespace Suiron.Blind
open Suiron Suiron.Spec

mutual
def mapG (ν : NMap) : Goal → Goal
  | .call t => .call (mapN ν t)
  | .bip name none => .bip name none
  | .bip name (some args) => .bip name (some (mapNL ν args))
  | .and gs => .and (mapGL ν gs)
  | .or gs => .or (mapGL ν gs)
  | .time gs => .time (mapGL ν gs)
  | .not gs => .not (mapGL ν gs)
  | .nil => .nil
def mapGL (ν : NMap) : GoalList → GoalList
  | .nil => .nil
  | .cons g gs => .cons (mapG ν g) (mapGL ν gs)
end

/-- a call the engine can look up by functor and arity without looking at a variable -/
def callOK : Term → Bool
  | .cplx (.cons (.atom _) _) => true
  | _ => false

mutual
/-- the fragment: calls, the cut, `fail`, `nl`, `unify` (the goal `a = b`), `,`, `;`, `not`, `time`; terms without functions and with
    ids at most `n` -/
def goodG (n : Nat) : Goal → Bool
  | .call t => good n t && callOK t
  | .bip name args => bipAllowed name && goodArgs n args
  | .and gs => goodGL n gs
  | .or gs => goodGL n gs
  | .time gs => goodGL n gs
  | .not gs => goodGL n gs
  | .nil => true
def goodGL (n : Nat) : GoalList → Bool
  | .nil => true
  | .cons g gs => goodG n g && goodGL n gs
end

mutual
theorem goodG_mono {n m : Nat} (h : n ≤ m) : ∀ g : Goal, goodG n g = true → goodG m g = true
  | .call t, hg => by
    simp only [goodG, Bool.and_eq_true] at hg ⊢
    exact ⟨good_mono h t hg.1, hg.2⟩
  | .bip _ none, hg => by simpa only [goodG, goodArgs] using hg
  | .bip _ (some as), hg => by
    simp only [goodG, goodArgs, Bool.and_eq_true] at hg ⊢
    exact ⟨hg.1, goodL_mono h as hg.2⟩
  | .and gs, hg => by simp only [goodG] at hg ⊢; exact goodGL_mono h gs hg
  | .or gs, hg => by simp only [goodG] at hg ⊢; exact goodGL_mono h gs hg
  | .time gs, hg => by simp only [goodG] at hg ⊢; exact goodGL_mono h gs hg
  | .not gs, hg => by simp only [goodG] at hg ⊢; exact goodGL_mono h gs hg
  | .nil, _ => rfl
theorem goodGL_mono {n m : Nat} (h : n ≤ m) : ∀ gs : GoalList, goodGL n gs = true → goodGL m gs = true
  | .nil, _ => rfl
  | .cons g gs, hg => by
    simp only [goodGL, Bool.and_eq_true] at hg ⊢
    exact ⟨goodG_mono h g hg.1, goodGL_mono h gs hg.2⟩
end

mutual
theorem mapG_congr {ν ν' : NMap} {n : Nat} (h : ∀ i, i ≤ n → ν' i = ν i) : ∀ g : Goal, goodG n g = true → mapG ν' g = mapG ν g
  | .call t, hg => by
    simp only [goodG, Bool.and_eq_true] at hg
    simp only [mapG, mapN_congr h t hg.1]
  | .bip _ none, _ => rfl
  | .bip _ (some as), hg => by
    simp only [goodG, goodArgs, Bool.and_eq_true] at hg
    simp only [mapG, mapNL_congr h as hg.2]
  | .and gs, hg => by simp only [goodG] at hg; simp only [mapG, mapGL_congr h gs hg]
  | .or gs, hg => by simp only [goodG] at hg; simp only [mapG, mapGL_congr h gs hg]
  | .time gs, hg => by simp only [goodG] at hg; simp only [mapG, mapGL_congr h gs hg]
  | .not gs, hg => by simp only [goodG] at hg; simp only [mapG, mapGL_congr h gs hg]
  | .nil, _ => rfl
theorem mapGL_congr {ν ν' : NMap} {n : Nat} (h : ∀ i, i ≤ n → ν' i = ν i) : ∀ gs : GoalList, goodGL n gs = true → mapGL ν' gs = mapGL ν gs
  | .nil, _ => rfl
  | .cons g gs, hg => by
    simp only [goodGL, Bool.and_eq_true] at hg
    simp only [mapGL, mapG_congr h g hg.1, mapGL_congr h gs hg.2]
end

theorem toList_mapGL (ν : NMap) : ∀ gs : GoalList, (mapGL ν gs).toList = gs.toList.map (mapG ν)
  | .nil => rfl
  | .cons g gs => by simp [mapGL, GoalList.toList, toList_mapGL ν gs]

theorem length_mapGL (ν : NMap) : ∀ gs : GoalList, (mapGL ν gs).length = gs.length
  | .nil => rfl
  | .cons g gs => by simp [mapGL, GoalList.length, length_mapGL ν gs]

theorem goodGL_toList {n : Nat} : ∀ gs : GoalList, goodGL n gs = true → ∀ g ∈ gs.toList, goodG n g = true
  | .nil, _ => by intro g hg; simp [GoalList.toList] at hg
  | .cons a gs, h => by
    simp only [goodGL, Bool.and_eq_true] at h
    intro g hg
    simp only [GoalList.toList, List.mem_cons] at hg
    rcases hg with e | e
    · rw [e]; exact h.1
    · exact goodGL_toList gs h.2 g e

theorem isNil_mapG (ν : NMap) (g : Goal) : (mapG ν g).isNil = g.isNil := by
  cases g with
  | bip name args => cases args <;> rfl
  | _ => rfl

theorem termKey_mapN (sf : UInt64 → String) (ν : NMap) (t : Term) (h : callOK t = true) : termKey sf (mapN ν t) = termKey sf t := by
  cases t with
  | cplx args =>
    cases args with
    | nil => simp [callOK] at h
    | cons f rest =>
      cases f with
      | atom s => simp [mapN, mapNL, termKey, length_mapNL, Term.show]
      | _ => simp [callOK] at h
  | _ => simp [callOK] at h

/-! ### frames -/

def mapK (ν : NMap) (k : List Goal) : List Goal := k.map (mapG ν)
def goodK (n : Nat) (k : List Goal) : Prop := ∀ g ∈ k, goodG n g = true

theorem mapK_congr {ν ν' : NMap} {n : Nat} (h : ∀ i, i ≤ n → ν' i = ν i) {k : List Goal} (hk : goodK n k) : mapK ν' k = mapK ν k := by
  unfold mapK
  apply List.map_congr_left
  intro g hg
  exact mapG_congr h g (hk g hg)

theorem goodK_mono {n m : Nat} (h : n ≤ m) {k : List Goal} (hk : goodK n k) : goodK m k := fun g hg => goodG_mono h g (hk g hg)

mutual
def mapF (ν : NMap) : PFrame → PFrame
  | .goals k σ => .goals (mapK ν k) (mapS ν σ)
  | .try t σ idx n k => .try (mapN ν t) (mapS ν σ) idx n (mapK ν k)
  | .notF alts σ k => .notF (mapFs ν alts) (mapS ν σ) (mapK ν k)
def mapFs (ν : NMap) : List PFrame → List PFrame
  | [] => []
  | f :: fs => mapF ν f :: mapFs ν fs
end

mutual
def goodF (n : Nat) : PFrame → Prop
  | .goals k σ => goodK n k ∧ goodS n σ
  | .try t σ _ _ k => (good n t = true ∧ callOK t = true) ∧ goodS n σ ∧ goodK n k
  | .notF alts σ k => goodFs n alts ∧ goodS n σ ∧ goodK n k
def goodFs (n : Nat) : List PFrame → Prop
  | [] => True
  | f :: fs => goodF n f ∧ goodFs n fs
end

mutual
theorem goodF_mono {n m : Nat} (h : n ≤ m) : ∀ f : PFrame, goodF n f → goodF m f
  | .goals k σ, hg => by simp only [goodF] at hg ⊢; exact ⟨goodK_mono h hg.1, goodS_mono h hg.2⟩
  | .try t σ _ _ k, hg => by
    simp only [goodF] at hg ⊢
    exact ⟨⟨good_mono h t hg.1.1, hg.1.2⟩, goodS_mono h hg.2.1, goodK_mono h hg.2.2⟩
  | .notF alts σ k, hg => by
    simp only [goodF] at hg ⊢
    exact ⟨goodFs_mono h alts hg.1, goodS_mono h hg.2.1, goodK_mono h hg.2.2⟩
theorem goodFs_mono {n m : Nat} (h : n ≤ m) : ∀ fs : List PFrame, goodFs n fs → goodFs m fs
  | [], _ => trivial
  | f :: fs, hg => by simp only [goodFs] at hg ⊢; exact ⟨goodF_mono h f hg.1, goodFs_mono h fs hg.2⟩
end

mutual
theorem mapF_congr {ν ν' : NMap} {n : Nat} (h : ∀ i, i ≤ n → ν' i = ν i) : ∀ f : PFrame, goodF n f → mapF ν' f = mapF ν f
  | .goals k σ, hg => by simp only [goodF] at hg; simp only [mapF, mapK_congr h hg.1, mapS_congr h hg.2]
  | .try t σ _ _ k, hg => by
    simp only [goodF] at hg
    simp only [mapF, mapN_congr h t hg.1.1, mapS_congr h hg.2.1, mapK_congr h hg.2.2]
  | .notF alts σ k, hg => by
    simp only [goodF] at hg
    simp only [mapF, mapFs_congr h alts hg.1, mapS_congr h hg.2.1, mapK_congr h hg.2.2]
theorem mapFs_congr {ν ν' : NMap} {n : Nat} (h : ∀ i, i ≤ n → ν' i = ν i) : ∀ fs : List PFrame, goodFs n fs → mapFs ν' fs = mapFs ν fs
  | [], _ => rfl
  | f :: fs, hg => by simp only [goodFs] at hg; simp only [mapFs, mapF_congr h f hg.1, mapFs_congr h fs hg.2]
end

theorem mapFs_append (ν : NMap) : ∀ (a b : List PFrame), mapFs ν (a ++ b) = mapFs ν a ++ mapFs ν b
  | [], b => rfl
  | f :: a, b => by simp [mapFs, mapFs_append ν a b]

theorem goodFs_append {n : Nat} : ∀ (a b : List PFrame), goodFs n (a ++ b) ↔ goodFs n a ∧ goodFs n b
  | [], b => by simp [goodFs]
  | f :: a, b => by simp [goodFs, goodFs_append a b, and_assoc]

theorem mapFs_tryFrame (ν : NMap) (t : Term) (σ : Subst) (idx n : Nat) (k : List Goal) :
    mapFs ν (tryFrame t σ idx n k) = tryFrame (mapN ν t) (mapS ν σ) idx n (mapK ν k) := by
  unfold tryFrame
  by_cases h : idx < n <;> simp [h, mapFs, mapF]

theorem goodFs_tryFrame {m : Nat} {t : Term} {σ : Subst} {k : List Goal} (idx n : Nat)
    (ht : good m t = true ∧ callOK t = true) (hs : goodS m σ) (hk : goodK m k) : goodFs m (tryFrame t σ idx n k) := by
  unfold tryFrame
  by_cases h : idx < n <;> simp [h, goodFs, goodF, ht, hs, hk]

/-! ### the knowledge bases -/

/-- clause for clause, `kb'` hands out what `kb` hands out, with the names of the fresh variables rewritten: whatever map is
    in use for the ids up to the counter can be extended to the fresh ids so that the clause of `kb'` is the image of the
    clause of `kb`; a clause handed out from counter `c` has ids at most the new counter and lies in the fragment -/
structure KBRel (kb kb' : KB) : Prop where
  count : ∀ key, ruleCount kb' key = ruleCount kb key
  rule : ∀ key idx c r c', getRule kb key idx c = .ok (r, c') →
    c ≤ c' ∧ (good c' r.head = true ∧ callOK r.head = true) ∧ goodG c' r.body = true ∧
    ∀ ν, Inj ν → ∃ ν', Inj ν' ∧ (∀ i, i ≤ c → ν' i = ν i) ∧ getRule kb' key idx c = .ok (⟨mapN ν' r.head, mapG ν' r.body⟩, c')

/-! ### one step -/

def mapC (ν : NMap) (a : PConf) : PConf := ⟨mapFs ν a.stack, a.ctr, a.out⟩

theorem step_sim (fo : FloatOps) {kb kb' : KB} (hk : KBRel kb kb') : ∀ {a b : PConf}, PStep fo kb a b →
    ∀ ν, Inj ν → goodFs a.ctr a.stack →
      ∃ ν', Inj ν' ∧ (∀ i, i ≤ a.ctr → ν' i = ν i) ∧ PStep fo kb' (mapC ν a) (mapC ν' b) ∧ goodFs b.ctr b.stack ∧ a.ctr ≤ b.ctr := by
  intro a b hstep
  induction hstep with
  | @call t k σ S c o key hkey =>
    intro ν hinj hg
    simp only [goodFs, goodF] at hg
    obtain ⟨⟨hgk, hgs⟩, hgS⟩ := hg
    have hcall := hgk (.call t) (by simp)
    simp only [goodG, Bool.and_eq_true] at hcall
    have hk' : goodK c k := fun g hg' => hgk g (by simp [hg'])
    refine ⟨ν, hinj, fun _ _ => rfl, ?_, ?_, Nat.le_refl _⟩
    · simp only [mapC, mapFs, mapF, mapK, List.map_cons, mapG, mapFs_append, mapFs_tryFrame]
      rw [← hk.count key]
      exact PStep.call (by rw [termKey_mapN _ _ _ hcall.2]; exact hkey)
    · exact (goodFs_append _ _).mpr ⟨goodFs_tryFrame 0 _ hcall hgs hk', hgS⟩
  | @bipOk name args k σ σ' S c o f txt hne hrun =>
    intro ν hinj hg
    simp only [goodFs, goodF] at hg
    obtain ⟨⟨hgk, hgs⟩, hgS⟩ := hg
    have hb := hgk (.bip name args) (by simp)
    simp only [goodG, Bool.and_eq_true] at hb
    have hk' : goodK c k := fun x hx => hgk x (by simp [hx])
    have hname : blindName name = true := blind_of_allowed hb.1 hne
    obtain ⟨e, g⟩ := runBip_blind fo ν hinj c f name args σ hname hb.2 hgs
    rw [hrun] at e
    refine ⟨ν, hinj, fun _ _ => rfl, ?_, ?_, Nat.le_refl _⟩
    · have hm : mapG ν (.bip name args) = .bip name (mapArgs ν args) := by cases args <;> rfl
      simp only [mapC, mapFs, mapF, mapK, List.map_cons, hm]
      exact PStep.bipOk hne e
    · simp only [goodFs, goodF]
      exact ⟨⟨hk', g σ' txt hrun⟩, hgS⟩
  | @bipFail name args k σ S c o f txt hne hrun =>
    intro ν hinj hg
    simp only [goodFs, goodF] at hg
    obtain ⟨⟨hgk, hgs⟩, hgS⟩ := hg
    have hb := hgk (.bip name args) (by simp)
    simp only [goodG, Bool.and_eq_true] at hb
    have hname : blindName name = true := blind_of_allowed hb.1 hne
    obtain ⟨e, _⟩ := runBip_blind fo ν hinj c f name args σ hname hb.2 hgs
    rw [hrun] at e
    refine ⟨ν, hinj, fun _ _ => rfl, ?_, hgS, Nat.le_refl _⟩
    have hm : mapG ν (.bip name args) = .bip name (mapArgs ν args) := by cases args <;> rfl
    simp only [mapC, mapFs, mapF, mapK, List.map_cons, hm]
    exact PStep.bipFail hne e
  | @conj gs k σ S c o =>
    intro ν hinj hg
    simp only [goodFs, goodF] at hg
    obtain ⟨⟨hgk, hgs⟩, hgS⟩ := hg
    have hand := hgk (.and gs) (by simp)
    simp only [goodG] at hand
    refine ⟨ν, hinj, fun _ _ => rfl, ?_, ?_, Nat.le_refl _⟩
    · simp only [mapC, mapFs, mapF, mapK, List.map_cons, mapG, List.map_append, ← toList_mapGL]
      exact PStep.conj
    · simp only [goodFs, goodF]
      refine ⟨⟨?_, hgs⟩, hgS⟩
      intro g hg'
      rcases List.mem_append.mp hg' with e | e
      · exact goodGL_toList gs hand g e
      · exact hgk g (by simp [e])
  | @disj g gs k σ S c o =>
    intro ν hinj hg
    simp only [goodFs, goodF] at hg
    obtain ⟨⟨hgk, hgs⟩, hgS⟩ := hg
    have hor := hgk (.or (.cons g gs)) (by simp)
    simp only [goodG, goodGL, Bool.and_eq_true] at hor
    have hk' : goodK c k := fun x hx => hgk x (by simp [hx])
    refine ⟨ν, hinj, fun _ _ => rfl, ?_, ?_, Nat.le_refl _⟩
    · have := @PStep.disj fo kb' (mapG ν g) (mapGL ν gs) (mapK ν k) (mapS ν σ) (mapFs ν S) c o
      simp only [length_mapGL] at this
      simp only [mapC, mapFs, mapF, mapK, List.map_cons, mapG, mapGL, mapFs_append]
      by_cases hl : gs.length = 0
      · simpa [hl, mapFs, mapK] using this
      · simpa [hl, mapFs, mapF, mapK, mapG] using this
    · by_cases hl : gs.length = 0
      · simp only [hl, if_true, List.nil_append, goodFs, goodF]
        refine ⟨⟨?_, hgs⟩, hgS⟩
        intro x hx
        rcases List.mem_cons.mp hx with e | e
        · rw [e]; exact hor.1
        · exact hk' x e
      · simp only [hl, if_false, List.cons_append, List.nil_append, goodFs, goodF]
        refine ⟨⟨?_, hgs⟩, ⟨?_, hgs⟩, hgS⟩
        · intro x hx
          rcases List.mem_cons.mp hx with e | e
          · rw [e]; exact hor.1
          · exact hk' x e
        · intro x hx
          rcases List.mem_cons.mp hx with e | e
          · rw [e]; simp only [goodG]; exact hor.2
          · exact hk' x e
  | @clauseOk t σ σ' idx n k S c o key rule c' f hkey hrule hun =>
    intro ν hinj hg
    simp only [goodFs, goodF] at hg
    obtain ⟨⟨ht, hgs, hgk⟩, hgS⟩ := hg
    obtain ⟨hcc, hhead, hbody, hext⟩ := hk.rule key idx c rule c' hrule
    obtain ⟨ν', hinj', hag, hrule'⟩ := hext ν hinj
    have ub := unify_blind fo ν' hinj' c' f rule.head t σ hhead.1 (good_mono hcc t ht.1) (goodS_mono hcc hgs)
    rw [hun] at ub
    have hσ' : goodS c' σ' := ub.2 σ' rfl
    have e1 : mapN ν' t = mapN ν t := mapN_congr hag t ht.1
    have e2 : mapS ν' σ = mapS ν σ := mapS_congr hag hgs
    have e3 : mapK ν' k = mapK ν k := mapK_congr hag hgk
    have e4 : mapFs ν' S = mapFs ν S := mapFs_congr hag S hgS
    refine ⟨ν', hinj', hag, ?_, ?_, hcc⟩
    · have hu' : unify fo f (mapN ν' rule.head) (mapN ν t) (mapS ν σ) = .ok (mapS ν' σ') := by rw [← e1, ← e2]; exact ub.1
      have := @PStep.clauseOk fo kb' (mapN ν t) (mapS ν σ) (mapS ν' σ') idx n (mapK ν k) (mapFs ν S) c o key
        ⟨mapN ν' rule.head, mapG ν' rule.body⟩ c' f (by rw [termKey_mapN _ _ _ ht.2]; exact hkey) hrule' hu'
      simp only [mapC, mapFs, mapF, mapFs_append, mapFs_tryFrame, e1, e2, e3, e4]
      simp only [isNil_mapG] at this
      by_cases hb : rule.body.isNil = true
      · have e3' : List.map (mapG ν') k = List.map (mapG ν) k := e3
        simpa [hb, mapK, e3'] using this
      · simp only [hb, Bool.false_eq_true, if_false] at this ⊢
        have e5 : mapK ν' (rule.body :: k) = mapG ν' rule.body :: mapK ν k := by
          simp only [mapK, List.map_cons] at e3 ⊢
          rw [e3]
        rw [e5]
        exact this
    · refine (goodFs_append (_ :: _) _).mpr ⟨?_, goodFs_mono hcc S hgS⟩
      simp only [goodFs, goodF]
      refine ⟨⟨?_, hσ'⟩, ?_⟩
      · by_cases hb : rule.body.isNil = true
        · simp only [hb, if_true]; exact goodK_mono hcc hgk
        · simp only [hb, Bool.false_eq_true, if_false]
          intro x hx
          rcases List.mem_cons.mp hx with e | e
          · rw [e]; exact hbody
          · exact goodK_mono hcc hgk x e
      · have := goodFs_tryFrame (m := c') (idx + 1) n ⟨good_mono hcc t ht.1, ht.2⟩ (goodS_mono hcc hgs) (goodK_mono hcc hgk)
        exact (goodFs_append _ []).mp (by simpa using this) |>.1 |> fun h => by simpa [goodFs] using h
  | @clauseFail t σ idx n k S c o key rule c' f hkey hrule hun =>
    intro ν hinj hg
    simp only [goodFs, goodF] at hg
    obtain ⟨⟨ht, hgs, hgk⟩, hgS⟩ := hg
    obtain ⟨hcc, hhead, hbody, hext⟩ := hk.rule key idx c rule c' hrule
    obtain ⟨ν', hinj', hag, hrule'⟩ := hext ν hinj
    have ub := unify_blind fo ν' hinj' c' f rule.head t σ hhead.1 (good_mono hcc t ht.1) (goodS_mono hcc hgs)
    rw [hun] at ub
    have e1 : mapN ν' t = mapN ν t := mapN_congr hag t ht.1
    have e2 : mapS ν' σ = mapS ν σ := mapS_congr hag hgs
    refine ⟨ν, hinj, fun _ _ => rfl, ?_, ?_, Nat.le_refl _⟩
    · have hu' : unify fo f (mapN ν' rule.head) (mapN ν t) (mapS ν σ) = .fail := by rw [← e1, ← e2]; exact ub.1
      have := @PStep.clauseFail fo kb' (mapN ν t) (mapS ν σ) idx n (mapK ν k) (mapFs ν S) c o key
        ⟨mapN ν' rule.head, mapG ν' rule.body⟩ c' f (by rw [termKey_mapN _ _ _ ht.2]; exact hkey) hrule' hu'
      simpa only [mapC, mapFs, mapF, mapFs_append, mapFs_tryFrame] using this
    · exact (goodFs_append _ _).mpr ⟨goodFs_tryFrame (idx + 1) n ht hgs hgk, hgS⟩
  | @notEnter g gs k σ S c o =>
    intro ν hinj hg
    simp only [goodFs, goodF] at hg
    obtain ⟨⟨hgk, hgs⟩, hgS⟩ := hg
    have hnot := hgk (.not (.cons g gs)) (by simp)
    simp only [goodG, goodGL, Bool.and_eq_true] at hnot
    have hk' : goodK c k := fun x hx => hgk x (by simp [hx])
    refine ⟨ν, hinj, fun _ _ => rfl, ?_, ?_, Nat.le_refl _⟩
    · simp only [mapC, mapFs, mapF, mapK, List.map_cons, mapG, mapGL, List.map_nil]
      exact PStep.notEnter
    · simp only [goodFs, goodF, and_true]
      refine ⟨⟨⟨?_, hgs⟩, hgs, hk'⟩, hgS⟩
      intro x hx
      simp only [List.mem_singleton] at hx
      rw [hx]; exact hnot.1
  | @notIn A A' σ k S c o c' o' hin ih =>
    intro ν hinj hg
    simp only [goodFs, goodF] at hg
    obtain ⟨⟨hgA, hgs, hgk⟩, hgS⟩ := hg
    obtain ⟨ν', hinj', hag, hstep', hgA', hcc⟩ := ih ν hinj hgA
    simp only at hcc hag hgA'
    refine ⟨ν', hinj', hag, ?_, ?_, hcc⟩
    · simp only [mapC, mapFs, mapF]
      rw [mapS_congr hag hgs, mapK_congr hag hgk, mapFs_congr hag S hgS]
      exact PStep.notIn hstep'
    · simp only [goodFs, goodF]
      exact ⟨⟨hgA', goodS_mono hcc hgs, goodK_mono hcc hgk⟩, goodFs_mono hcc S hgS⟩
  | @notOk σ k S c o =>
    intro ν hinj hg
    simp only [goodFs, goodF] at hg
    obtain ⟨⟨_, hgs, hgk⟩, hgS⟩ := hg
    refine ⟨ν, hinj, fun _ _ => rfl, ?_, ?_, Nat.le_refl _⟩
    · simp only [mapC, mapFs, mapF]
      exact PStep.notOk
    · simp only [goodFs, goodF]
      exact ⟨⟨hgk, hgs⟩, hgS⟩
  | @notFail σ' A σ k S c o =>
    intro ν hinj hg
    simp only [goodFs, goodF] at hg
    refine ⟨ν, hinj, fun _ _ => rfl, ?_, hg.2, Nat.le_refl _⟩
    simp only [mapC, mapFs, mapF, mapK, List.map_nil]
    exact PStep.notFail

/-! ### runs -/

theorem steps_sim (fo : FloatOps) {kb kb' : KB} (hk : KBRel kb kb') : ∀ {a b : PConf}, PSteps fo kb a b →
    ∀ ν, Inj ν → goodFs a.ctr a.stack →
      ∃ ν', Inj ν' ∧ (∀ i, i ≤ a.ctr → ν' i = ν i) ∧ PSteps fo kb' (mapC ν a) (mapC ν' b) ∧ goodFs b.ctr b.stack ∧ a.ctr ≤ b.ctr := by
  intro a b h
  induction h with
  | refl => intro ν hinj hg; exact ⟨ν, hinj, fun _ _ => rfl, .refl, hg, Nat.le_refl _⟩
  | step hs _ ih =>
    intro ν hinj hg
    obtain ⟨ν1, hinj1, hag1, hs1, hg1, hc1⟩ := step_sim fo hk hs ν hinj hg
    obtain ⟨ν2, hinj2, hag2, hs2, hg2, hc2⟩ := ih ν1 hinj1 hg1
    exact ⟨ν2, hinj2, fun i hi => by rw [hag2 i (Nat.le_trans hi hc1), hag1 i hi], .step hs1 hs2, hg2, Nat.le_trans hc1 hc2⟩

/-- the observations with the bindings renamed -/
def mapTr (ν : NMap) (tr : List (Option Subst × List String)) : List (Option Subst × List String) :=
  tr.map fun p => (p.1.map (mapS ν), p.2)

/-- the answers of a run, each at most as high as the counter when it was given -/
def goodTr (ν ν' : NMap) (tr : List (Option Subst × List String)) : Prop := mapTr ν' tr = mapTr ν tr

theorem run_sim (fo : FloatOps) {kb kb' : KB} (hk : KBRel kb kb') : ∀ {a : PConf} {tr : List (Option Subst × List String)},
    MRun fo kb a tr → ∀ ν, Inj ν → goodFs a.ctr a.stack →
      ∃ ν', Inj ν' ∧ (∀ i, i ≤ a.ctr → ν' i = ν i) ∧ MRun fo kb' (mapC ν a) (mapTr ν' tr) ∧
        (∀ ν'', (∀ i, ν'' i = ν' i) → mapTr ν'' tr = mapTr ν' tr) := by
  intro a tr h
  induction h with
  | nil => intro ν hinj _; exact ⟨ν, hinj, fun _ _ => rfl, .nil, fun _ _ => rfl⟩
  | @ans c σ S ctr out rest hsteps _ ih =>
    intro ν hinj hg
    obtain ⟨ν1, hinj1, hag1, hs1, hg1, hc1⟩ := steps_sim fo hk hsteps ν hinj hg
    simp only [goodFs, goodF] at hg1
    obtain ⟨ν2, hinj2, hag2, hr2, _⟩ := ih ν1 hinj1 hg1.2
    simp only at hag2 hc1
    refine ⟨ν2, hinj2, fun i hi => by rw [hag2 i (Nat.le_trans hi hc1), hag1 i hi], ?_, ?_⟩
    · have e : mapS ν2 σ = mapS ν1 σ := mapS_congr hag2 hg1.1.2
      simp only [mapTr, List.map_cons, Option.map_some, e]
      refine MRun.ans (S := mapFs ν1 S) (ctr := ctr) ?_ hr2
      simpa only [mapC, mapFs, mapF, mapK, List.map_nil] using hs1
    · intro ν'' he
      have : ν'' = ν2 := funext he
      rw [this]
  | @fin c ctr out rest hsteps _ ih =>
    intro ν hinj hg
    obtain ⟨ν1, hinj1, hag1, hs1, hg1, hc1⟩ := steps_sim fo hk hsteps ν hinj hg
    obtain ⟨ν2, hinj2, hag2, hr2, _⟩ := ih ν1 hinj1 hg1
    simp only at hag2 hc1
    refine ⟨ν2, hinj2, fun i hi => by rw [hag2 i (Nat.le_trans hi hc1), hag1 i hi], ?_, ?_⟩
    · simp only [mapTr, List.map_cons, Option.map_none]
      refine MRun.fin (ctr := ctr) ?_ hr2
      simpa only [mapC, mapFs] using hs1
    · intro ν'' he
      have : ν'' = ν2 := funext he
      rw [this]

/-! ### the identity renaming -/

def idN : NMap := fun _ s => s
theorem idN_inj : Inj idN := fun _ _ _ h => h

mutual
theorem mapN_id : ∀ t : Term, mapN idN t = t
  | .var _ _ => rfl
  | .cplx args => by simp only [mapN, mapNL_id args]
  | .cons t n _ _ => by simp only [mapN, mapN_id t, mapN_id n]
  | .func _ args => by simp only [mapN, mapNL_id args]
  | .nil => rfl
  | .anon => rfl
  | .atom _ => rfl
  | .flt _ => rfl
  | .int _ => rfl
theorem mapNL_id : ∀ ts : TermList, mapNL idN ts = ts
  | .nil => rfl
  | .cons a as => by simp only [mapNL, mapN_id a, mapNL_id as]
end

mutual
theorem mapG_id : ∀ g : Goal, mapG idN g = g
  | .call t => by simp only [mapG, mapN_id]
  | .bip _ none => rfl
  | .bip _ (some args) => by simp only [mapG, mapNL_id]
  | .and gs => by simp only [mapG, mapGL_id gs]
  | .or gs => by simp only [mapG, mapGL_id gs]
  | .time gs => by simp only [mapG, mapGL_id gs]
  | .not gs => by simp only [mapG, mapGL_id gs]
  | .nil => rfl
theorem mapGL_id : ∀ gs : GoalList, mapGL idN gs = gs
  | .nil => rfl
  | .cons g gs => by simp only [mapGL, mapG_id g, mapGL_id gs]
end

/-- C11 FOR THE MACHINE: a query (a goal of the fragment whose ids are at most the counter `c`), solved against two knowledge
    bases that hand out the same clauses up to the names of their variables, shows the same sequence of observations —
    answer or none, and the text written so far — with the bindings of the answers renamed by a map that leaves the query's
    own variables (ids up to `c`) alone -/
theorem machine_blind_to_names (fo : FloatOps) {kb kb' : KB} (hk : KBRel kb kb') (q : Goal) (c : Nat) (hq : goodG c q = true)
    (out : List String) {tr : List (Option Subst × List String)} (h : MRun fo kb ⟨[.goals [q] []], c, out⟩ tr) :
    ∃ ν, Inj ν ∧ (∀ i, i ≤ c → ν i = idN i) ∧ MRun fo kb' ⟨[.goals [q] []], c, out⟩ (mapTr ν tr) := by
  have hg : goodFs c [PFrame.goals [q] []] := by
    simp only [goodFs, goodF, and_true]
    exact ⟨fun g hg => by simp only [List.mem_singleton] at hg; rw [hg]; exact hq, goodS_nil c⟩
  obtain ⟨ν, hinj, hag, hr, _⟩ := run_sim fo hk h idN idN_inj hg
  refine ⟨ν, hinj, hag, ?_⟩
  simpa [mapC, mapFs, mapF, mapK, mapG_id, mapS] using hr

end Suiron.Blind
