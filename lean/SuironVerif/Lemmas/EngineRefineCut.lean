/-
  Refinement of the engine model to the reference machine with cut (`Spec/CutMachine.lean`) on the fragment of
  flat bodies: a request on a node is a run of the machine from the node's abstraction, for programs whose
  rule bodies are empty, one call / built-in / cut, or a conjunction of those.
-/
import SuironVerif.Spec.CutMachine
import SuironVerif.Lemmas.EngineRefine
namespace Suiron.Spec
open Suiron

/-- atomic goals: calls, built-ins, the cut -/
def flatG : Goal → Bool
  | .call _ => true
  | .bip _ _ => true
  | _ => false

def flatGL : GoalList → Bool
  | .nil => true
  | .cons g gs => flatG g && flatGL gs

/-- a flat body -/
def flatBody (b : Goal) : Prop :=
  b.isNil = true ∨ flatG b = true ∨ ∃ gs, b = .and gs ∧ gs.length ≠ 0 ∧ flatGL gs = true

def FlatKB (kb : KB) : Prop :=
  ∀ key idx c rule c', getRule kb key idx c = .ok (rule, c') → flatBody rule.body

/-- the goals of the rest of a conjunction, with the barrier of their clause -/
def gl (rest : GoalList) (bar : Nat) : List CG := rest.toList.map (fun g => CG.g g bar)

/-- the frames a node still stands for: `k` = what follows it, `bar` = the barrier of the clause it belongs to,
    `h` = the height of the stack below its frames -/
def absC : Node → List CG → Nat → Nat → List CFrame
  | .bip name args σ nb more, k, bar, _ => if nb || !more then [] else [.goals (.g (.bip name args) bar :: k) σ]
  | .call t σ nb child idx n, k, _, h =>
    if nb then [] else
      (match child with
       | some c => absC c (.endB h false :: k) h (h + (cTry t σ idx n k).length)
       | none => []) ++ cTry t σ idx n k
  | .op .and _ _ _ head rest tail, k, bar, h =>
    (match tail with
     | some tn => absC tn k bar (h + (absC head (gl rest bar ++ k) bar h).length)
     | none => []) ++ absC head (gl rest bar ++ k) bar h
  | .op _ _ _ _ _ _ _, _, _, _ => []

def deadC (N : Node) : Prop := ∀ k bar h, absC N k bar h = []

def isAtomN : Node → Prop
  | .bip _ _ _ _ _ => True
  | .call _ _ _ _ _ _ => True
  | _ => False

/-- a conjunction node that may be asked: not marked by a cut, and neither is the chain of its tails -/
def askable : Node → Prop
  | .op .and _ nb _ _ _ tail => nb = false ∧ (match tail with | some tn => askable tn | none => True)
  | _ => True

/-- nodes of the fragment -/
def cutN : Node → Prop
  | .bip _ _ _ _ _ => True
  | .call _ _ nb child _ _ => match child with | some c => cutN c ∧ (nb = false → askable c) | none => True
  | .op .and _ _ _ head rest tail =>
    flatGL rest = true ∧ isAtomN head ∧ cutN head ∧
    (match tail with | some tn => cutN tn ∧ (∃ σ nb more hd rs tl, tn = .op .and σ nb more hd rs tl) | none => True) ∧
    (rest.length = 0 → tail = none)
  | .op _ _ _ _ _ _ _ => False

theorem gl_cons (g : Goal) (gs : GoalList) (bar : Nat) : gl (.cons g gs) bar = CG.g g bar :: gl gs bar := by
  simp [gl, GoalList.toList]

theorem gl_nil (bar : Nat) : gl .nil bar = [] := by simp [gl, GoalList.toList]

theorem cRuleCount_eq (kb : KB) (key : String) : cRuleCount kb key = ruleCount kb key := rfl

/-- building the node of an atomic goal is the machine's first step on that goal (or no step) -/
theorem mkAtom_steps (fo : FloatOps) (kb : KB) (g : Goal) (hg : flatG g = true) (σ : Subst) (G0 : G) (N : Node) (G1 : G)
    (k : List CG) (bar h : Nat) (S : List CFrame) (hm : mkNode fo.showF kb g σ G0 = .ok (N, G1)) (hok : GOK G0) :
    CSteps fo kb ⟨.goals (.g g bar :: k) σ :: S, G0.counter, G0.out⟩ ⟨absC N k bar h ++ S, G0.counter, G0.out⟩ ∧
      G1.counter = G0.counter ∧ G1.out = G0.out ∧ GOK G1 ∧ cutN N ∧ isAtomN N := by
  cases g with
  | call t =>
    simp only [mkNode] at hm
    obtain ⟨key, hkey, hm⟩ := Res.bind_eq_ok.mp hm
    cases hm
    have hc := countRules_ok (kb := kb) (key := key) hok
    refine ⟨?_, hc.2.2.1, hc.2.2.2, hc.2.1, trivial, trivial⟩
    simp only [absC, Bool.false_eq_true, if_false, List.nil_append, hc.1]
    exact CSteps.one (CStep.call hkey)
  | bip name args =>
    simp only [mkNode] at hm; cases hm
    refine ⟨?_, rfl, rfl, hok, trivial, trivial⟩
    simp only [absC]
    exact CSteps.refl
  | and _ => simp [flatG] at hg
  | or _ => simp [flatG] at hg
  | time _ => simp [flatG] at hg
  | not _ => simp [flatG] at hg
  | nil => simp [flatG] at hg

/-- the node the engine makes for the rest of a conjunction, against the goals already spliced into the continuation -/
theorem mkRest_steps (fo : FloatOps) (kb : KB) (rest : GoalList) (hr : flatGL rest = true) (hne : rest.length ≠ 0)
    (σ : Subst) (G0 : G) (N : Node) (G1 : G) (k : List CG) (bar h : Nat) (S : List CFrame)
    (hm : mkNode fo.showF kb (.and rest) σ G0 = .ok (N, G1)) (hok : GOK G0) :
    CSteps fo kb ⟨.goals (gl rest bar ++ k) σ :: S, G0.counter, G0.out⟩ ⟨absC N k bar h ++ S, G0.counter, G0.out⟩ ∧
      G1.counter = G0.counter ∧ G1.out = G0.out ∧ GOK G1 ∧ cutN N ∧ askable N ∧
      (∃ σ' nb more hd rs tl, N = .op .and σ' nb more hd rs tl) := by
  cases rest with
  | nil => simp [GoalList.length] at hne
  | cons g rest' =>
    simp only [mkNode] at hm
    obtain ⟨r, hr1, hm⟩ := Res.bind_eq_ok.mp hm
    cases hm
    simp only [flatGL, Bool.and_eq_true] at hr
    have a := mkAtom_steps fo kb g hr.1 σ G0 r.1 r.2 (gl rest' bar ++ k) bar h S hr1 hok
    refine ⟨?_, a.2.1, a.2.2.1, a.2.2.2.1, ⟨hr.2, a.2.2.2.2.2, a.2.2.2.2.1, trivial, fun _ => rfl⟩, ⟨rfl, trivial⟩, ⟨_, _, _, _, _, _, rfl⟩⟩
    simp only [absC, List.nil_append, gl_cons, List.cons_append]
    exact a.1

/-! ### what a request means for the machine -/

def kOf (c : Bool) (k : List CG) : List CG := if c then markCut k else k
def hOf (c : Bool) (bar h : Nat) : Nat := if c then bar else h
def bOf (c : Bool) (B : List CFrame) (bar : Nat) : List CFrame := if c then truncate B bar else B

/-- from `start` the machine runs to the answer continued by `k` with the successor node's frames on top of `B` —
    or, when a cut ran during the request (`st.cut`), continued by `k` with its body end marker committed, on top of
    `B` cut back to the barrier — or, without an answer, down to `B` resp. `B` cut back -/
def RefC (fo : FloatOps) (kb : KB) (st : Step) (G0 : G) (start : List CFrame) (k : List CG) (bar h : Nat) (B : List CFrame) : Prop :=
  (match st.sol with
   | some σ' => CSteps fo kb ⟨start, G0.counter, G0.out⟩
       ⟨.goals (kOf st.cut k) σ' :: (absC st.node (kOf st.cut k) bar (hOf st.cut bar h) ++ bOf st.cut B bar), st.g.counter, st.g.out⟩
   | none => CSteps fo kb ⟨start, G0.counter, G0.out⟩ ⟨bOf st.cut B bar, st.g.counter, st.g.out⟩ ∧ (st.cut = false → deadC st.node)) ∧
  cutN st.node ∧ GOK st.g ∧ (st.cut = false → askable st.node)

theorem RefC.pre {fo : FloatOps} {kb : KB} {st : Step} {G0 G1 : G} {start start' : List CFrame} {k : List CG} {bar h : Nat} {B : List CFrame}
    (h1 : CSteps fo kb ⟨start', G0.counter, G0.out⟩ ⟨start, G1.counter, G1.out⟩) (h2 : RefC fo kb st G1 start k bar h B) :
    RefC fo kb st G0 start' k bar h B := by
  unfold RefC at h2 ⊢
  refine ⟨?_, h2.2⟩
  cases hs : st.sol with
  | some σ' => have := h2.1; rw [hs] at this; exact h1.trans this
  | none => have := h2.1; rw [hs] at this; exact ⟨h1.trans this.1, this.2⟩

theorem setNb_atom (N : Node) (ha : isAtomN N) (hc : cutN N) : deadC N.setNb ∧ cutN N.setNb ∧ isAtomN N.setNb := by
  cases N with
  | bip name args σ nb more => exact ⟨fun k bar h => by simp [Node.setNb, absC], trivial, trivial⟩
  | call t σ nb child idx n =>
    refine ⟨fun k bar h => by cases child <;> simp [Node.setNb, absC], ?_, trivial⟩
    cases child with
    | none => trivial
    | some c => exact ⟨hc.1, fun hf => by cases hf⟩
  | op kd σ nb more head rest tail => exact ha.elim

theorem bOf_length (c : Bool) (B : List CFrame) (bar h : Nat) (hB : B.length = h) (hb : bar ≤ h) :
    (bOf c B bar).length = hOf c bar h := by
  unfold bOf hOf; cases c
  · simpa using hB
  · simp only [if_true]; exact truncate_length B bar (by omega)

def kindOf : Node → Nat
  | .bip _ _ _ _ _ => 0
  | .call _ _ _ _ _ _ => 1
  | .op .and _ _ _ _ _ _ => 2
  | .op .or _ _ _ _ _ _ => 3
  | .op .not _ _ _ _ _ _ => 4
  | .op .time _ _ _ _ _ _ => 5

/-- `P` holds of the result, when there is one -/
def Res.all {α} (P : α → Prop) : Res α → Prop
  | .ok x => P x
  | _ => True

theorem Res.all_bind {α β} {P : β → Prop} {a : Res α} {g : α → Res β} (h : ∀ x, Res.all P (g x)) : Res.all P (a.bind g) := by
  cases a with
  | ok x => exact h x
  | fail => trivial
  | panic => trivial
  | oof => trivial

theorem Res.all_ite {α} {P : α → Prop} {c : Prop} [Decidable c] {a b : Res α} (h1 : c → Res.all P a) (h2 : ¬c → Res.all P b) :
    Res.all P (if c then a else b) := by
  by_cases h : c
  · simp only [h, if_true]; exact h1 h
  · simp only [h, if_false]; exact h2 h

theorem Res.all_ok {α} {P : α → Prop} {r : Res α} {x : α} (h : Res.all P r) (e : r = .ok x) : P x := by
  rw [e] at h; exact h

macro "allk" : tactic => `(tactic| repeat' (first
  | exact trivial
  | (show _ = _; rfl)
  | (apply_assumption; done)
  | refine Res.all_bind (fun _ => ?_)
  | refine Res.all_ite (fun _ => ?_) (fun _ => ?_)
  | split
  | dsimp only [Res.all]))

/-- a request never changes what kind of node it is asked on -/
theorem kind_all (fo : FloatOps) (kb : KB) : ∀ f,
    (∀ N g, Res.all (fun st => kindOf st.node = kindOf N) (next fo kb f N g)) ∧
    (∀ t σ nb child idx n g, Res.all (fun st => kindOf st.node = 1) (callLoop fo kb f t σ nb child idx n g)) ∧
    (∀ σ nb more head rest tail cutAcc g, Res.all (fun st => kindOf st.node = 2) (andLoop fo kb f σ nb more head rest tail cutAcc g)) := by
  intro f
  induction f with
  | zero => exact ⟨fun _ _ => trivial, fun _ _ _ _ _ _ _ => trivial, fun _ _ _ _ _ _ _ _ => trivial⟩
  | succ f ih =>
    obtain ⟨ih1, ih2, ih3⟩ := ih
    refine ⟨?_, ?_, ?_⟩
    · intro N g
      cases N with
      | bip name args σ nb more => simp only [next, Node.nb]; allk
      | call t σ nb child idx n => simp only [next, Node.nb]; allk
      | op kd σ nb more head rest tail => cases kd <;> (simp only [next, Node.nb]; allk)
    · intro t σ nb child idx n g
      simp only [callLoop]; allk
    · intro σ nb more head rest tail cutAcc g
      simp only [andLoop]; allk

theorem next_kind (fo : FloatOps) (kb : KB) (f : Nat) (N : Node) (g : G) (st : Step) (h : next fo kb f N g = .ok st) :
    kindOf st.node = kindOf N := by
  have := (kind_all fo kb f).1 N g; rw [h] at this; exact this
theorem callLoop_kind (fo : FloatOps) (kb : KB) (f : Nat) (t : Term) (σ : Subst) (nb : Bool) (child : Option Node) (idx n : Nat) (g : G) (st : Step)
    (h : callLoop fo kb f t σ nb child idx n g = .ok st) : kindOf st.node = 1 := by
  have := (kind_all fo kb f).2.1 t σ nb child idx n g; rw [h] at this; exact this
theorem andLoop_kind (fo : FloatOps) (kb : KB) (f : Nat) (σ : Subst) (nb more : Bool) (head : Node) (rest : GoalList) (tail : Option Node) (c : Bool) (g : G) (st : Step)
    (h : andLoop fo kb f σ nb more head rest tail c g = .ok st) : kindOf st.node = 2 := by
  have := (kind_all fo kb f).2.2 σ nb more head rest tail c g; rw [h] at this; exact this


theorem atom_of_kind {N M : Node} (h : kindOf M = kindOf N) (ha : isAtomN N) : isAtomN M := by
  cases N with
  | bip _ _ _ _ _ => cases M with
    | bip _ _ _ _ _ => trivial
    | call _ _ _ _ _ _ => trivial
    | op kd _ _ _ _ _ _ => cases kd <;> simp [kindOf] at h
  | call _ _ _ _ _ _ => cases M with
    | bip _ _ _ _ _ => trivial
    | call _ _ _ _ _ _ => trivial
    | op kd _ _ _ _ _ _ => cases kd <;> simp [kindOf] at h
  | op _ _ _ _ _ _ _ => exact ha.elim

theorem and_of_kind {M : Node} (h : kindOf M = 2) : ∃ σ nb more hd rs tl, M = .op .and σ nb more hd rs tl := by
  cases M with
  | bip _ _ _ _ _ => simp [kindOf] at h
  | call _ _ _ _ _ _ => simp [kindOf] at h
  | op kd σ nb more hd rs tl => cases kd <;> simp [kindOf] at h; exact ⟨_, _, _, _, _, _, rfl⟩

/-! ### the refinement proof -/

theorem cEmit_eq (g : G) (s : String) : (g.emit s).out = cEmit g.out s ∧ (g.emit s).counter = g.counter := by
  unfold G.emit cEmit; split <;> simp


theorem sol_none_of {o : Option Subst} (h : ¬ o.isSome = true) : o = none := by cases o <;> simp_all

theorem askable_of_atom {N : Node} (h : isAtomN N) : askable N := by
  cases N with
  | bip _ _ _ _ _ => trivial
  | call _ _ _ _ _ _ => trivial
  | op _ _ _ _ _ _ _ => exact h.elim

/-- the child a call node still holds from an exhausted clause body -/
def StaleOK (child : Option Node) : Prop :=
  match child with
  | some c => deadC c ∧ cutN c ∧ askable c
  | none => True

theorem absC_call_nb (t : Term) (σ : Subst) (child : Option Node) (idx n : Nat) (k : List CG) (bar h : Nat) :
    absC (.call t σ true child idx n) k bar h = [] := by cases child <;> simp [absC]

theorem len_try_app (X B : List CFrame) (h : Nat) (hB : B.length = h) : (X ++ B).length = h + X.length := by
  rw [List.length_append, hB]; omega

/-- the body of the chosen clause has answered: its end marker runs, and the call node stands for what is left -/
theorem body_some (fo : FloatOps) (kb : KB) (r : Step) (G0 : G) (start : List CFrame) (t : Term) (σ : Subst) (idx n : Nat)
    (k : List CG) (h : Nat) (B : List CFrame) (hB : B.length = h) (σ' : Subst) (hs : r.sol = some σ')
    (href : RefC fo kb r G0 start (.endB h false :: k) h (h + (cTry t σ idx n k).length) (cTry t σ idx n k ++ B))
    (bar : Nat) :
    CSteps fo kb ⟨start, G0.counter, G0.out⟩
      ⟨.goals k σ' :: (absC (.call t σ (false || r.cut) (some r.node) idx n) k bar h ++ B), r.g.counter, r.g.out⟩ := by
  have h1 := href.1
  rw [hs] at h1
  cases hc : r.cut with
  | false =>
    rw [hc] at h1
    simp only [kOf, hOf, bOf, Bool.false_eq_true, if_false] at h1
    refine h1.trans (CSteps.one ?_)
    simp only [absC, Bool.or_false, Bool.false_eq_true, if_false, List.append_assoc]
    exact CStep.endBody
  | true =>
    rw [hc] at h1
    simp only [kOf, hOf, bOf, if_true, markCut] at h1
    refine h1.trans (CSteps.one ?_)
    simp only [absC, Bool.or_true, if_true, List.nil_append]
    have e0 : truncate (cTry t σ idx n k ++ B) h = B := by
      rw [truncate_append_of_le _ _ _ (by omega), ← hB, truncate_self]
    have e : truncate (absC r.node (CG.endB h true :: k) h h ++ B) h = B := by
      rw [truncate_append_of_le _ _ _ (by omega), ← hB, truncate_self]
    rw [e0]
    have := @CStep.commitBody fo kb h k σ' (absC r.node (CG.endB h true :: k) h h ++ B) r.g.counter r.g.out
    rw [e] at this
    exact this

/-- the body of the chosen clause has no (further) answer: what is left are the later clauses — or, after a cut, nothing -/
theorem body_none (fo : FloatOps) (kb : KB) (r : Step) (G0 : G) (start : List CFrame) (t : Term) (σ : Subst) (idx n : Nat)
    (k : List CG) (h : Nat) (B : List CFrame) (hB : B.length = h) (hs : r.sol = none)
    (href : RefC fo kb r G0 start (.endB h false :: k) h (h + (cTry t σ idx n k).length) (cTry t σ idx n k ++ B)) :
    CSteps fo kb ⟨start, G0.counter, G0.out⟩ ⟨(if r.cut then [] else cTry t σ idx n k) ++ B, r.g.counter, r.g.out⟩ ∧
      (r.cut = false → deadC r.node) := by
  have h1 := href.1
  rw [hs] at h1
  refine ⟨?_, h1.2⟩
  cases hc : r.cut with
  | false =>
    have := h1.1; rw [hc] at this
    simpa [bOf] using this
  | true =>
    have := h1.1; rw [hc] at this
    simp only [bOf, if_true] at this
    rw [truncate_append_of_le _ _ _ (by omega), ← hB, truncate_self] at this
    simpa using this

/-- the tail a conjunction node still holds: a conjunction node of the fragment; unless a cut has just run, it is
    exhausted and was not marked -/
def TailOK (cutAcc : Bool) (tail : Option Node) : Prop :=
  match tail with
  | some tn => cutN tn ∧ kindOf tn = 2 ∧ (cutAcc = false → deadC tn ∧ askable tn)
  | none => True

/-- the three statements proved together by induction on the fuel -/
def StmtN (fo : FloatOps) (kb : KB) (f : Nat) : Prop :=
  ∀ N G0 st k bar h B, next fo kb f N G0 = .ok st → cutN N → askable N → GOK G0 → B.length = h → bar ≤ h →
    RefC fo kb st G0 (absC N k bar h ++ B) k bar h B ∧
    ((∃ t σ nb child idx n, N = .call t σ nb child idx n) → st.cut = false) ∧
    (isAtomN N → st.cut = true → deadC st.node)

def StmtC (fo : FloatOps) (kb : KB) (f : Nat) : Prop :=
  ∀ t σ nb child idx n G0 st k bar h B, callLoop fo kb f t σ nb child idx n G0 = .ok st → nb = false →
    StaleOK child → GOK G0 → B.length = h → bar ≤ h →
    RefC fo kb st G0 (cTry t σ idx n k ++ B) k bar h B ∧ st.cut = false

def StmtA (fo : FloatOps) (kb : KB) (f : Nat) : Prop :=
  ∀ σ nb more head rest tail cutAcc G0 st k bar h B, andLoop fo kb f σ nb more head rest tail cutAcc G0 = .ok st →
    nb = cutAcc → flatGL rest = true → isAtomN head → cutN head → TailOK cutAcc tail →
    (rest.length = 0 → tail = none) → GOK G0 → B.length = h → bar ≤ h →
    RefC fo kb st G0 (absC head (gl rest bar ++ kOf cutAcc k) bar (hOf cutAcc bar h) ++ bOf cutAcc B bar) k bar h B ∧
    (cutAcc = true → st.cut = true)

theorem step_bip (fo : FloatOps) (kb : KB) (f : Nat) (name : String) (args : Option TermList) (σ : Subst) (nb more : Bool)
    (G0 : G) (st : Step) (k : List CG) (bar h : Nat) (B : List CFrame)
    (hn : next fo kb (f + 1) (.bip name args σ nb more) G0 = .ok st) (hg : GOK G0) :
    RefC fo kb st G0 (absC (.bip name args σ nb more) k bar h ++ B) k bar h B ∧
    ((∃ t σ' nb' child idx n, Node.bip name args σ nb more = .call t σ' nb' child idx n) → st.cut = false) ∧
    (st.cut = true → deadC st.node) := by
    have hdead : st.cut = true → deadC st.node := by
      simp only [next, Node.nb] at hn
      by_cases h1 : nb = true
      · simp only [h1, if_true] at hn; cases hn; intro hc; cases hc
      · simp only [h1, if_false] at hn
        by_cases h2 : (!more) = true
        · simp only [h2, if_true] at hn; cases hn; intro hc; cases hc
        · simp only [h2, if_false] at hn
          by_cases h3 : name = "!"
          · simp only [h3, if_true] at hn; cases hn; intro _ k' b' h'; simp [absC]
          · simp only [h3, if_false] at hn
            obtain ⟨r, _, hn⟩ := Res.bind_eq_ok.mp hn; cases hn; intro hc; cases hc
    refine ⟨?_, (fun ⟨_, _, _, _, _, _, e⟩ => by cases e), hdead⟩
    simp only [next, Node.nb] at hn
    by_cases hnb : nb = true
    · subst hnb
      simp at hn; subst hn
      refine ⟨⟨by simp [absC, bOf]; exact CSteps.refl, fun _ k' b' h' => by simp [absC]⟩, trivial, hg, fun _ => trivial⟩
    · have hnb' : nb = false := by simpa using hnb
      subst hnb'
      simp only [Bool.false_eq_true, if_false] at hn
      by_cases hm : more = true
      · subst hm
        simp only [Bool.not_true, Bool.false_eq_true, if_false] at hn
        by_cases hcut : name = "!"
        · subst hcut
          simp only [if_true] at hn
          cases hn
          refine ⟨?_, trivial, hg, fun hf => by cases hf⟩
          simp only [absC, Bool.or_false, Bool.not_true, Bool.false_eq_true, if_false, List.cons_append, List.nil_append,
            kOf, hOf, bOf, if_true, Bool.true_or]
          exact CSteps.one CStep.cut
        · simp only [hcut, if_false] at hn
          obtain ⟨r, hr, hn⟩ := Res.bind_eq_ok.mp hn
          cases hn
          have ho := cEmit_eq G0 r.out
          refine ⟨?_, trivial, GOK_emit hg _, fun _ => trivial⟩
          cases hs : r.sol with
          | some σ' =>
            simp only [absC, Bool.or_false, Bool.not_true, Bool.false_eq_true, if_false, List.cons_append, List.nil_append,
              kOf, hOf, bOf, Bool.or_true, if_true]
            have hr' : runBip fo f name (optList args) σ = .ok ⟨some σ', r.out⟩ := by rw [hr]; cases r; simp_all
            rw [ho.1, ho.2]
            exact CSteps.one (CStep.bipOk hcut hr')
          | none =>
            simp only [absC, Bool.or_false, Bool.not_true, Bool.false_eq_true, if_false, List.cons_append, List.nil_append,
              kOf, hOf, bOf]
            have hr' : runBip fo f name (optList args) σ = .ok ⟨none, r.out⟩ := by rw [hr]; cases r; simp_all
            rw [ho.1, ho.2]
            exact ⟨CSteps.one (CStep.bipFail hcut hr'), fun _ k' b' h' => by simp [absC]⟩
      · have hm' : more = false := by simpa using hm
        subst hm'
        simp at hn; subst hn
        refine ⟨⟨by simp [absC, bOf]; exact CSteps.refl, fun _ k' b' h' => by simp [absC]⟩, trivial, hg, fun _ => trivial⟩

theorem step_call (fo : FloatOps) (kb : KB) (f : Nat) (ihN : StmtN fo kb f) (ihC : StmtC fo kb f)
    (t : Term) (σ : Subst) (nb : Bool) (child : Option Node) (idx n : Nat)
    (G0 : G) (st : Step) (k : List CG) (bar h : Nat) (B : List CFrame)
    (hn : next fo kb (f + 1) (.call t σ nb child idx n) G0 = .ok st) (hcn : cutN (.call t σ nb child idx n))
    (hg : GOK G0) (hB : B.length = h) (hbar : bar ≤ h) :
    RefC fo kb st G0 (absC (.call t σ nb child idx n) k bar h ++ B) k bar h B ∧
    st.cut = false := by
    refine ⟨?_, ?_⟩
    · simp only [next, Node.nb] at hn
      by_cases hnb : nb = true
      · subst hnb
        simp at hn; subst hn
        refine ⟨⟨by simp only [absC_call_nb, bOf, List.nil_append, Bool.false_eq_true, if_false]; exact CSteps.refl, fun _ k' b' h' => absC_call_nb _ _ _ _ _ _ _ _⟩, hcn, hg, fun _ => trivial⟩
      · have hnb' : nb = false := by simpa using hnb
        subst hnb'
        simp only [Bool.false_eq_true, if_false] at hn
        cases child with
        | none =>
          simp only at hn
          have := (ihC t σ false none idx n G0 st k bar h B hn rfl trivial hg hB hbar).1
          simpa [absC] using this
        | some c =>
          simp only at hn
          obtain ⟨r, hr, hn⟩ := Res.bind_eq_ok.mp hn
          have hcn' : cutN c ∧ (false = false → askable c) := hcn
          have href := (ihN c G0 r (.endB h false :: k) h (h + (cTry t σ idx n k).length) (cTry t σ idx n k ++ B) hr hcn'.1 (hcn'.2 rfl) hg
            (len_try_app _ _ _ hB) (by omega)).1
          have hstart : absC (.call t σ false (some c) idx n) k bar h ++ B =
              absC c (.endB h false :: k) h (h + (cTry t σ idx n k).length) ++ (cTry t σ idx n k ++ B) := by
            simp [absC, List.append_assoc]
          rw [hstart]
          by_cases hsol : r.sol.isSome = true
          · simp only [hsol, if_true] at hn
            cases hn
            obtain ⟨σ', hσ'⟩ := Option.isSome_iff_exists.mp hsol
            refine ⟨?_, ?_, href.2.2.1, fun _ => trivial⟩
            · simp only [hσ', kOf, hOf, bOf, Bool.false_eq_true, if_false]
              exact body_some fo kb r G0 _ t σ idx n k h B hB σ' hσ' href bar
            · show cutN (.call t σ (false || r.cut) (some r.node) idx n)
              refine ⟨href.2.1, fun hc => href.2.2.2 (by simpa using hc)⟩
          · have hnone : r.sol = none := sol_none_of hsol
            simp only [hsol, Bool.false_eq_true, if_false] at hn
            obtain ⟨hrun, hdead⟩ := body_none fo kb r G0 _ t σ idx n k h B hB hnone href
            have hcl := ihC t σ (false || r.cut) none idx n r.g st k bar h B hn
            cases hc : r.cut with
            | false =>
              rw [hc] at hcl hrun
              have := (hcl rfl trivial href.2.2.1 hB hbar).1
              exact RefC.pre (by simpa using hrun) this
            | true =>
              -- a cut ran in the body, which then failed: the call is over
              rw [hc] at hn hrun
              cases f with
              | zero => simp [callLoop] at hn
              | succ f' =>
                simp [callLoop] at hn
                subst hn
                refine ⟨⟨by simpa [bOf] using hrun, fun _ k' b' h' => absC_call_nb _ _ _ _ _ _ _ _⟩, trivial, href.2.2.1, fun _ => trivial⟩
    · simp only [next, Node.nb] at hn
      by_cases hnb : nb = true
      · subst hnb; simp at hn; subst hn; rfl
      · have hnb' : nb = false := by simpa using hnb
        subst hnb'
        simp only [Bool.false_eq_true, if_false] at hn
        cases child with
        | none => exact (ihC t σ false none idx n G0 st k bar h B hn rfl trivial hg hB hbar).2
        | some c =>
          simp only at hn
          obtain ⟨r, hr, hn⟩ := Res.bind_eq_ok.mp hn
          by_cases hsol : r.sol.isSome = true
          · simp only [hsol, if_true] at hn; cases hn; rfl
          · simp only [hsol, Bool.false_eq_true, if_false] at hn
            cases f with
            | zero => simp [callLoop] at hn
            | succ f' =>
              cases hc : r.cut with
              | true => rw [hc] at hn; simp [callLoop] at hn; subst hn; rfl
              | false =>
                rw [hc] at hn
                have hcn' : cutN c ∧ (false = false → askable c) := hcn
                have href := (ihN c G0 r (.endB h false :: k) h (h + (cTry t σ idx n k).length) (cTry t σ idx n k ++ B) hr hcn'.1 (hcn'.2 rfl) hg
                  (len_try_app _ _ _ hB) (by omega)).1
                exact (ihC t σ (false || false) none idx n r.g st k bar h B hn rfl trivial href.2.2.1 hB hbar).2

/-- the node of a flat body against the goals of the body -/
theorem mkBody_steps (fo : FloatOps) (kb : KB) (body : Goal) (hb : flatBody body) (hnn : body.isNil = false)
    (σ : Subst) (G0 : G) (N : Node) (G1 : G) (k : List CG) (h h' : Nat) (S : List CFrame)
    (hm : mkNode fo.showF kb body σ G0 = .ok (N, G1)) (hok : GOK G0) :
    CSteps fo kb ⟨.goals (bodyGoals body h ++ k) σ :: S, G0.counter, G0.out⟩
      ⟨absC N (.endB h false :: k) h h' ++ S, G0.counter, G0.out⟩ ∧
      G1.counter = G0.counter ∧ G1.out = G0.out ∧ GOK G1 ∧ cutN N ∧ askable N := by
  rcases hb with hb | hb | ⟨gs, rfl, hne, hgs⟩
  · rw [hb] at hnn; cases hnn
  · have a := mkAtom_steps fo kb body hb σ G0 N G1 (.endB h false :: k) h h' S hm hok
    refine ⟨?_, a.2.1, a.2.2.1, a.2.2.2.1, a.2.2.2.2.1, ?_⟩
    · have e : bodyGoals body h ++ k = CG.g body h :: CG.endB h false :: k := by
        unfold bodyGoals
        cases body <;> simp_all [flatG, Goal.isNil]
      rw [e]; exact a.1
    · exact askable_of_atom a.2.2.2.2.2
  · have a := mkRest_steps fo kb gs hgs hne σ G0 N G1 (.endB h false :: k) h h' S hm hok
    refine ⟨?_, a.2.1, a.2.2.1, a.2.2.2.1, a.2.2.2.2.1, a.2.2.2.2.2.1⟩
    have e : bodyGoals (.and gs) h ++ k = gl gs h ++ CG.endB h false :: k := by
      simp [bodyGoals, Goal.isNil, gl]
    rw [e]; exact a.1

theorem step_callLoop (fo : FloatOps) (kb : KB) (hkb : FlatKB kb) (f : Nat) (ihN : StmtN fo kb f) (ihC : StmtC fo kb f)
    (t : Term) (σ : Subst) (child : Option Node) (idx n : Nat)
    (G0 : G) (st : Step) (k : List CG) (bar h : Nat) (B : List CFrame)
    (hn : callLoop fo kb (f + 1) t σ false child idx n G0 = .ok st)
    (hch : StaleOK child)
    (hg : GOK G0) (hB : B.length = h) (hbar : bar ≤ h) :
    RefC fo kb st G0 (cTry t σ idx n k ++ B) k bar h B ∧ st.cut = false := by
  simp only [callLoop, Bool.false_eq_true, if_false] at hn
  -- the call node with its stale child stands for the clauses still to be tried
  have hstale : ∀ i k' b' h', absC (.call t σ false child i n) k' b' h' = cTry t σ i n k' := by
    intro i k' b' h'
    cases child with
    | none => simp [absC]
    | some c => simp [absC, hch.1 _ _ _]
  have hcn : ∀ i, cutN (.call t σ false child i n) := by
    intro i
    cases child with
    | none => trivial
    | some c => exact ⟨hch.2.1, fun _ => hch.2.2⟩
  by_cases hge : idx ≥ n
  · simp only [hge, if_true] at hn
    cases hn
    have e : ∀ k', cTry t σ idx n k' = [] := by intro k'; simp [cTry]; omega
    refine ⟨⟨⟨by simp only [e, bOf, List.nil_append, Bool.false_eq_true, if_false]; exact CSteps.refl,
      fun _ k' b' h' => by rw [hstale, e]⟩, hcn idx, hg, fun _ => trivial⟩, rfl⟩
  · simp only [hge, if_false] at hn
    have hlt : idx < n := by omega
    obtain ⟨key, hkey, hn⟩ := Res.bind_eq_ok.mp hn
    obtain ⟨rc, hrc, hn⟩ := Res.bind_eq_ok.mp hn
    have hrc' : getRule kb key idx G0.counter = .ok (rc.1, rc.2) := by rw [hrc]
    have etry : cTry t σ idx n k = [.try t σ idx n k] := by simp [cTry, hlt]
    cases hu : unify fo f rc.1.head t σ with
    | oof => rw [hu] at hn; cases hn
    | panic => rw [hu] at hn; cases hn
    | fail =>
      rw [hu] at hn
      simp only at hn
      obtain ⟨r1, r2⟩ := ihC t σ false child (idx + 1) n G0 st k bar h B hn rfl hch hg hB hbar
      refine ⟨RefC.pre ?_ r1, r2⟩
      rw [etry]
      exact CSteps.one (CStep.clauseFail hkey hrc' hu)
    | ok σ' =>
      rw [hu] at hn
      simp only at hn
      have hflat := hkb key idx G0.counter rc.1 rc.2 hrc'
      have hstep : CStep fo kb ⟨.try t σ idx n k :: B, G0.counter, G0.out⟩
          ⟨.goals (bodyGoals rc.1.body B.length ++ k) σ' :: (cTry t σ (idx + 1) n k ++ B), rc.2, G0.out⟩ :=
        CStep.clauseOk hkey hrc' hu
      rw [hB] at hstep
      by_cases hnil : rc.1.body.isNil = true
      · simp only [hnil, if_true] at hn
        cases hn
        refine ⟨⟨?_, hcn (idx + 1), ⟨hg.1, hg.2⟩, fun _ => trivial⟩, rfl⟩
        simp only [kOf, hOf, bOf, Bool.false_eq_true, if_false, hstale, etry, List.cons_append, List.nil_append]
        have : bodyGoals rc.1.body h ++ k = k := by simp [bodyGoals, hnil]
        rw [this] at hstep
        exact CSteps.one hstep
      · have hnil' : rc.1.body.isNil = false := by simpa using hnil
        simp only [hnil', Bool.false_eq_true, if_false] at hn
        obtain ⟨m, hm, hn⟩ := Res.bind_eq_ok.mp hn
        obtain ⟨r, hr, hn⟩ := Res.bind_eq_ok.mp hn
        let G1 : G := { G0 with counter := rc.2 }
        have hg1 : GOK G1 := ⟨hg.1, hg.2⟩
        obtain ⟨hmk, hmc, hmo, hmg, hmcn, hmask⟩ := mkBody_steps fo kb rc.1.body hflat hnil' σ' G1 m.1 m.2 k h
          (h + (cTry t σ (idx + 1) n k).length) (cTry t σ (idx + 1) n k ++ B) hm hg1
        have href := (ihN m.1 m.2 r (.endB h false :: k) h (h + (cTry t σ (idx + 1) n k).length) (cTry t σ (idx + 1) n k ++ B)
          hr hmcn hmask hmg (len_try_app _ _ _ hB) (by omega)).1
        -- from the try frame to the frames of the body node
        have hpre : CSteps fo kb ⟨cTry t σ idx n k ++ B, G0.counter, G0.out⟩
            ⟨absC m.1 (.endB h false :: k) h (h + (cTry t σ (idx + 1) n k).length) ++ (cTry t σ (idx + 1) n k ++ B), m.2.counter, m.2.out⟩ := by
          rw [etry, hmc, hmo]
          exact (CSteps.one hstep).trans hmk
        by_cases hsol : r.sol.isSome = true
        · simp only [hsol, if_true] at hn
          cases hn
          obtain ⟨σ2, hσ2⟩ := Option.isSome_iff_exists.mp hsol
          refine ⟨⟨?_, ?_, href.2.2.1, fun _ => trivial⟩, rfl⟩
          · simp only [hσ2, kOf, hOf, bOf, Bool.false_eq_true, if_false]
            exact hpre.trans (body_some fo kb r m.2 _ t σ (idx + 1) n k h B hB σ2 hσ2 href bar)
          · show cutN (.call t σ (false || r.cut) (some r.node) (idx + 1) n)
            exact ⟨href.2.1, fun hc => href.2.2.2 (by simpa using hc)⟩
        · have hnone : r.sol = none := sol_none_of hsol
          simp only [hsol, Bool.false_eq_true, if_false] at hn
          obtain ⟨hrun, hdead⟩ := body_none fo kb r m.2 _ t σ (idx + 1) n k h B hB hnone href
          cases hc : r.cut with
          | false =>
            rw [hc] at hn hrun
            have hd := hdead hc
            obtain ⟨r1, r2⟩ := ihC t σ (false || false) (some r.node) (idx + 1) n r.g st k bar h B hn rfl
              ⟨hd, href.2.1, href.2.2.2 hc⟩ href.2.2.1 hB hbar
            exact ⟨RefC.pre (hpre.trans (by simpa using hrun)) r1, r2⟩
          | true =>
            rw [hc] at hn hrun
            cases f with
            | zero => simp [callLoop] at hn
            | succ f' =>
              simp [callLoop] at hn
              subst hn
              refine ⟨⟨⟨?_, fun _ k' b' h' => absC_call_nb _ _ _ _ _ _ _ _⟩, ⟨href.2.1, fun hf => by cases hf⟩, href.2.2.1, fun _ => trivial⟩, rfl⟩
              simp only [bOf, Bool.false_eq_true, if_false]
              exact hpre.trans (by simpa using hrun)

theorem markCut_gl (rest : GoalList) (bar : Nat) (K : List CG) : markCut (gl rest bar ++ K) = gl rest bar ++ markCut K := by
  unfold gl
  induction rest.toList with
  | nil => rfl
  | cons g gs ih => simp [markCut, ih]

theorem kOf_gl (c : Bool) (rest : GoalList) (bar : Nat) (K : List CG) : kOf c (gl rest bar ++ K) = gl rest bar ++ kOf c K := by
  cases c <;> simp [kOf, markCut_gl]

theorem kOf_kOf (a b : Bool) (k : List CG) : kOf a (kOf b k) = kOf (b || a) k := by
  cases a <;> cases b <;> simp [kOf, markCut_idem]

theorem hOf_hOf (a b : Bool) (bar h : Nat) : hOf a bar (hOf b bar h) = hOf (b || a) bar h := by
  cases a <;> cases b <;> simp [hOf]

theorem bOf_bOf (a b : Bool) (B : List CFrame) (bar : Nat) (hb : bar ≤ B.length) : bOf a (bOf b B bar) bar = bOf (b || a) B bar := by
  cases a <;> cases b <;> simp [bOf, truncate_idem _ _ hb]

theorem bOf_app (X B1 : List CFrame) (bar : Nat) (hb : bar ≤ B1.length) : truncate (X ++ B1) bar = truncate B1 bar :=
  truncate_append_of_le X B1 bar hb

theorem step_andLoop (fo : FloatOps) (kb : KB) (f : Nat) (ihN : StmtN fo kb f) (ihA : StmtA fo kb f)
    (σ : Subst) (nb more : Bool) (head : Node) (rest : GoalList) (tail : Option Node) (cutAcc : Bool)
    (G0 : G) (st : Step) (k : List CG) (bar h : Nat) (B : List CFrame)
    (hn : andLoop fo kb (f + 1) σ nb more head rest tail cutAcc G0 = .ok st)
    (hnb : nb = cutAcc) (hflat : flatGL rest = true) (hat : isAtomN head) (hch : cutN head) (htl : TailOK cutAcc tail)
    (hrt : rest.length = 0 → tail = none) (hg : GOK G0) (hB : B.length = h) (hbar : bar ≤ h) :
    RefC fo kb st G0 (absC head (gl rest bar ++ kOf cutAcc k) bar (hOf cutAcc bar h) ++ bOf cutAcc B bar) k bar h B ∧
    (cutAcc = true → st.cut = true) := by
  subst hnb
  simp only [andLoop] at hn
  obtain ⟨r, hr, hn⟩ := Res.bind_eq_ok.mp hn
  have hbB : bar ≤ B.length := by omega
  have hlenB : (bOf nb B bar).length = hOf nb bar h := bOf_length nb B bar h hB hbar
  have hbarh : bar ≤ hOf nb bar h := by unfold hOf; split <;> omega
  obtain ⟨href, _, hcd⟩ := ihN head G0 r (gl rest bar ++ kOf nb k) bar (hOf nb bar h) (bOf nb B bar) hr hch (askable_of_atom hat) hg hlenB hbarh
  have hkr : kindOf r.node = kindOf head := next_kind fo kb f head G0 r hr
  have hatr : isAtomN r.node := atom_of_kind hkr hat
  -- the head after the request, marked if a cut ran
  have hhead1 : isAtomN (if r.cut then r.node.setNb else r.node) ∧ cutN (if r.cut then r.node.setNb else r.node) := by
    split
    · exact ⟨(setNb_atom _ hatr href.2.1).2.2, (setNb_atom _ hatr href.2.1).2.1⟩
    · exact ⟨hatr, href.2.1⟩
  -- what the head node still stands for, whichever way
  have hHd : ∀ K b' h', absC (if r.cut then r.node.setNb else r.node) K b' h' = absC r.node K b' h' := by
    intro K b' h'
    split
    · rename_i hc
      rw [(setNb_atom _ hatr href.2.1).1 K b' h', (hcd hat hc) K b' h']
    · rfl
  cases hs : r.sol with
  | none =>
    rw [hs] at hn
    simp only at hn
    cases hn
    have h1 := href.1
    rw [hs] at h1
    have hcn' : cutN (.op .and σ (nb || r.cut) more (if r.cut then r.node.setNb else r.node) rest tail) := by
      unfold cutN
      refine ⟨hflat, hhead1.1, hhead1.2, ?_, hrt⟩
      cases tail with
      | none => trivial
      | some tn => exact ⟨htl.1, and_of_kind htl.2.1⟩
    refine ⟨⟨⟨?_, ?_⟩, hcn', href.2.2.1, ?_⟩, ?_⟩
    · have := h1.1
      rw [bOf_bOf _ _ _ _ hbB] at this
      exact this
    · intro hc k' b' h'
      have hc' : nb = false ∧ r.cut = false := by simpa using hc
      have hd := h1.2 hc'.2
      cases tail with
      | none => simp only [absC, hHd, hd _ _ _, List.append_nil]
      | some tn => simp only [absC, hHd, hd _ _ _, List.append_nil, List.length_nil, Nat.add_zero]; exact (htl.2.2 hc'.1).1 _ _ _
    · intro hc
      have hc' : nb = false ∧ r.cut = false := by simpa using hc
      show askable (.op .and σ (nb || r.cut) more (if r.cut then r.node.setNb else r.node) rest tail)
      unfold askable
      refine ⟨by simp [hc'.1, hc'.2], ?_⟩
      cases tail with
      | none => trivial
      | some tn => exact (htl.2.2 hc'.1).2
    · intro hc; simp [hc]
  | some ss =>
    rw [hs] at hn
    simp only at hn
    have h1 := href.1
    rw [hs] at h1
    rw [kOf_gl, kOf_kOf, hOf_hOf, bOf_bOf _ _ _ _ hbB] at h1
    by_cases hrl : (rest.length == 0) = true
    · -- the last goal of the conjunction
      simp only [hrl, if_true] at hn
      cases hn
      have hr0 : rest.length = 0 := by simpa using hrl
      have htn : tail = none := hrt hr0
      subst htn
      have hgl : gl rest bar = [] := by
        cases rest with
        | nil => exact gl_nil bar
        | cons _ _ => simp [GoalList.length] at hr0
      have hcn' : cutN (.op .and σ (nb || r.cut) more (if r.cut then r.node.setNb else r.node) rest none) := by
        unfold cutN; exact ⟨hflat, hhead1.1, hhead1.2, trivial, hrt⟩
      refine ⟨⟨?_, hcn', href.2.2.1, ?_⟩, ?_⟩
      · simp only [absC, hHd, List.nil_append, hgl]
        rw [hgl] at h1
        simpa using h1
      · intro hc
        have hc' : nb = false ∧ r.cut = false := by simpa using hc
        show askable (.op .and σ (nb || r.cut) more (if r.cut then r.node.setNb else r.node) rest none)
        unfold askable
        exact ⟨by simp [hc'.1, hc'.2], trivial⟩
      · intro hc; simp [hc]
    · -- the rest of the conjunction is asked under the head's answer
      simp only [hrl, Bool.false_eq_true, if_false] at hn
      have hrne : rest.length ≠ 0 := by simpa using hrl
      obtain ⟨m, hm, hn⟩ := Res.bind_eq_ok.mp hn
      obtain ⟨r2, hr2, hn⟩ := Res.bind_eq_ok.mp hn
      -- the frames the head still stands for, and the stack below the tail
      let c1 := nb || r.cut
      let Hd := absC r.node (gl rest bar ++ kOf c1 k) bar (hOf c1 bar h)
      let B1 := bOf c1 B bar
      have hlenB1 : B1.length = hOf c1 bar h := bOf_length c1 B bar h hB hbar
      have hbarB1 : bar ≤ B1.length := by rw [hlenB1]; unfold hOf; split <;> omega
      obtain ⟨hmk, hmc, hmo, hmg, hmcn, hmask, hmand⟩ := mkRest_steps fo kb rest hflat hrne ss r.g m.1 m.2 (kOf c1 k) bar
        (hOf c1 bar h + Hd.length) (Hd ++ B1) hm href.2.2.1
      have hpre : CSteps fo kb ⟨absC head (gl rest bar ++ kOf nb k) bar (hOf nb bar h) ++ bOf nb B bar, G0.counter, G0.out⟩
          ⟨absC m.1 (kOf c1 k) bar (hOf c1 bar h + Hd.length) ++ (Hd ++ B1), m.2.counter, m.2.out⟩ := by
        rw [hmc, hmo]
        exact h1.trans hmk
      obtain ⟨href2, _, _⟩ := ihN m.1 m.2 r2 (kOf c1 k) bar (hOf c1 bar h + Hd.length) (Hd ++ B1) hr2 hmcn hmask hmg
        (by rw [List.length_append, hlenB1]; omega) (by rw [← hlenB1]; omega)
      have hk2 : kindOf r2.node = 2 := by
        rw [next_kind fo kb f m.1 m.2 r2 hr2]
        obtain ⟨_, _, _, _, _, _, e⟩ := hmand
        rw [e]; rfl
      -- the head after both requests
      have hhead2 : isAtomN (if r2.cut then (if r.cut then r.node.setNb else r.node).setNb else (if r.cut then r.node.setNb else r.node)) ∧
          cutN (if r2.cut then (if r.cut then r.node.setNb else r.node).setNb else (if r.cut then r.node.setNb else r.node)) := by
        split
        · exact ⟨(setNb_atom _ hhead1.1 hhead1.2).2.2, (setNb_atom _ hhead1.1 hhead1.2).2.1⟩
        · exact hhead1
      have hHd2 : ∀ K b' h', absC (if r2.cut then (if r.cut then r.node.setNb else r.node).setNb else (if r.cut then r.node.setNb else r.node)) K b' h' =
          if r2.cut then [] else absC r.node K b' h' := by
        intro K b' h'
        split
        · exact (setNb_atom _ hhead1.1 hhead1.2).1 K b' h'
        · exact hHd K b' h'
      have hdX : ∀ K b' h', absC (if r.cut then r.node.setNb else r.node).setNb K b' h' = [] := (setNb_atom _ hhead1.1 hhead1.2).1
      cases hs2 : r2.sol with
      | some σ2 =>
        rw [hs2] at hn
        simp only [Option.isSome_some, if_true] at hn
        cases hn
        have h2 := href2.1
        rw [hs2] at h2
        have hcn2 : cutN (.op .and σ (nb || r.cut || r2.cut) more
            (if r2.cut then (if r.cut then r.node.setNb else r.node).setNb else (if r.cut then r.node.setNb else r.node)) rest (some r2.node)) := by
          unfold cutN
          exact ⟨hflat, hhead2.1, hhead2.2, ⟨href2.2.1, and_of_kind hk2⟩, fun h0 => absurd h0 hrne⟩
        refine ⟨⟨?_, hcn2, href2.2.2.1, ?_⟩, ?_⟩
        · cases hc2 : r2.cut with
          | false =>
            rw [hc2] at h2
            simp only [kOf, hOf, bOf, Bool.false_eq_true, if_false, Bool.or_false] at h2 ⊢
            simp only [absC, hHd, Bool.false_eq_true, if_false]
            have := hpre.trans h2
            simpa [List.append_assoc, c1, Hd, B1, kOf, hOf, bOf] using this
          | true =>
            rw [hc2] at h2
            have e1 : kOf true (kOf c1 k) = kOf true k := by rw [kOf_kOf]; simp
            have e2 : bOf true (Hd ++ B1) bar = bOf true B bar := by
              show truncate (Hd ++ B1) bar = _
              rw [bOf_app _ _ _ hbarB1]
              have := bOf_bOf true c1 B bar hbB
              simp only [Bool.or_true] at this
              exact this
            rw [e1, e2] at h2
            simp only [Bool.or_true, hOf, if_true] at h2 ⊢
            simp only [absC, hdX, if_true, List.length_nil, Nat.add_zero, List.append_nil]
            exact hpre.trans h2
        · intro hc
          have hc' : (nb = false ∧ r.cut = false) ∧ r2.cut = false := by simpa using hc
          show askable (.op .and σ (nb || r.cut || r2.cut) more _ rest (some r2.node))
          unfold askable
          exact ⟨by simp [hc'.1.1, hc'.1.2, hc'.2], href2.2.2.2 hc'.2⟩
        · intro hc; simp [hc]
      | none =>
        rw [hs2] at hn
        simp only [Option.isSome_none, Bool.false_eq_true, if_false] at hn
        have h2 := href2.1
        rw [hs2] at h2
        have htl2 : TailOK (nb || r.cut || r2.cut) (some r2.node) := by
          refine ⟨href2.2.1, hk2, fun hc => ?_⟩
          have hc' : (nb = false ∧ r.cut = false) ∧ r2.cut = false := by simpa using hc
          exact ⟨h2.2 hc'.2, href2.2.2.2 hc'.2⟩
        obtain ⟨ra, rb⟩ := ihA σ (nb || r.cut || r2.cut) more _ rest (some r2.node) (nb || r.cut || r2.cut) r2.g st k bar h B hn rfl hflat
          hhead2.1 hhead2.2 htl2 (fun h0 => absurd h0 hrne) href2.2.2.1 hB hbar
        refine ⟨RefC.pre (hpre.trans ?_) ra, fun hc => rb (by simp [hc])⟩
        cases hc2 : r2.cut with
        | false =>
          have := h2.1; rw [hc2] at this
          simp only [hHd, Bool.false_eq_true, if_false, Bool.or_false]
          simpa [bOf, c1, Hd, B1] using this
        | true =>
          have := h2.1; rw [hc2] at this
          have e2 : bOf true (Hd ++ B1) bar = bOf true B bar := by
            show truncate (Hd ++ B1) bar = _
            rw [bOf_app _ _ _ hbarB1]
            have hh := bOf_bOf true c1 B bar hbB
            simp only [Bool.or_true] at hh
            exact hh
          rw [e2] at this
          simp only [hdX, if_true, Bool.or_true, List.nil_append]
          exact this

theorem step_and (fo : FloatOps) (kb : KB) (f : Nat) (ihN : StmtN fo kb f) (ihA : StmtA fo kb f)
    (σ : Subst) (nb more : Bool) (head : Node) (rest : GoalList) (tail : Option Node)
    (G0 : G) (st : Step) (k : List CG) (bar h : Nat) (B : List CFrame)
    (hn : next fo kb (f + 1) (.op .and σ nb more head rest tail) G0 = .ok st)
    (hcn : cutN (.op .and σ nb more head rest tail)) (hask : askable (.op .and σ nb more head rest tail))
    (hg : GOK G0) (hB : B.length = h) (hbar : bar ≤ h) :
    RefC fo kb st G0 (absC (.op .and σ nb more head rest tail) k bar h ++ B) k bar h B := by
  unfold cutN at hcn
  obtain ⟨hflat, hat, hch, htn, hrt⟩ := hcn
  unfold askable at hask
  obtain ⟨hnb, htask⟩ := hask
  subst hnb
  have hbB : bar ≤ B.length := by omega
  simp only [next, Node.nb, Bool.false_eq_true, if_false] at hn
  cases tail with
  | none =>
    simp only at hn
    have := (ihA σ false more head rest none false G0 st k bar h B hn rfl hflat hat hch trivial hrt hg hB hbar).1
    simpa [absC, kOf, hOf, bOf] using this
  | some tn =>
    simp only at hn
    obtain ⟨r, hr, hn⟩ := Res.bind_eq_ok.mp hn
    let Hd := absC head (gl rest bar ++ k) bar h
    have hstart : absC (.op .and σ false more head rest (some tn)) k bar h ++ B = absC tn k bar (h + Hd.length) ++ (Hd ++ B) := by
      simp [absC, Hd, List.append_assoc]
    rw [hstart]
    obtain ⟨href, _, _⟩ := ihN tn G0 r k bar (h + Hd.length) (Hd ++ B) hr htn.1 htask hg
      (by rw [List.length_append, hB]; omega) (by omega)
    have hk : kindOf r.node = 2 := by
      rw [next_kind fo kb f tn G0 r hr]
      obtain ⟨_, _, _, _, _, _, e⟩ := htn.2
      rw [e]; rfl
    have hhead1 : isAtomN (if r.cut then head.setNb else head) ∧ cutN (if r.cut then head.setNb else head) := by
      split
      · exact ⟨(setNb_atom _ hat hch).2.2, (setNb_atom _ hat hch).2.1⟩
      · exact ⟨hat, hch⟩
    have hdX : ∀ K b' h', absC head.setNb K b' h' = [] := (setNb_atom _ hat hch).1
    have hrne : rest.length ≠ 0 := fun h0 => by have := hrt h0; cases this
    by_cases hsol : r.sol.isSome = true
    · simp only [hsol, if_true] at hn
      cases hn
      obtain ⟨σ', hσ'⟩ := Option.isSome_iff_exists.mp hsol
      have h1 := href.1
      rw [hσ'] at h1
      have hcn2 : cutN (.op .and σ (false || r.cut) more (if r.cut then head.setNb else head) rest (some r.node)) := by
        unfold cutN
        exact ⟨hflat, hhead1.1, hhead1.2, ⟨href.2.1, and_of_kind hk⟩, fun h0 => absurd h0 hrne⟩
      refine ⟨?_, hcn2, href.2.2.1, ?_⟩
      · simp only [hσ']
        cases hc : r.cut with
        | false =>
          rw [hc] at h1
          simp only [kOf, hOf, bOf, Bool.false_eq_true, if_false] at h1 ⊢
          simp only [absC]
          simpa [List.append_assoc, Hd] using h1
        | true =>
          rw [hc] at h1
          simp only [kOf, hOf, bOf, if_true] at h1 ⊢
          rw [bOf_app _ _ _ hbB] at h1
          simp only [absC, hdX, List.length_nil, Nat.add_zero, List.append_nil]
          exact h1
      · intro hc
        show askable (.op .and σ (false || r.cut) more _ rest (some r.node))
        unfold askable
        exact ⟨by simpa using hc, href.2.2.2 hc⟩
    · have hnone : r.sol = none := sol_none_of hsol
      simp only [hsol, Bool.false_eq_true, if_false] at hn
      have h1 := href.1
      rw [hnone] at h1
      have htl2 : TailOK r.cut (some r.node) := ⟨href.2.1, hk, fun hc => ⟨h1.2 hc, href.2.2.2 hc⟩⟩
      obtain ⟨ra, _⟩ := ihA σ (false || r.cut) more (if r.cut then head.setNb else head) rest (some r.node) r.cut r.g st k bar h B hn
        (by simp) hflat hhead1.1 hhead1.2 htl2 (fun h0 => absurd h0 hrne) href.2.2.1 hB hbar
      refine RefC.pre ?_ ra
      cases hc : r.cut with
      | false =>
        have := h1.1; rw [hc] at this
        simp only [kOf, hOf, bOf, Bool.false_eq_true, if_false] at this ⊢
        exact this
      | true =>
        have := h1.1; rw [hc] at this
        simp only [bOf, if_true] at this
        rw [bOf_app _ _ _ hbB] at this
        simp only [kOf, hOf, bOf, if_true, hdX, List.nil_append]
        exact this

theorem CRun.pre {fo : FloatOps} {kb : KB} {a b : CConf} {tr : List (Option Subst × List String)}
    (h : CSteps fo kb a b) (r : CRun fo kb b tr) : CRun fo kb a tr := by
  cases r with
  | nil => exact .nil
  | ans h1 t => exact .ans (h.trans h1) t
  | fin h1 t => exact .fin (h.trans h1) t

/-- REFINEMENT with the cut: by induction on the fuel, for `next`, the clause loop and the conjunction loop together -/
theorem next_refines_cut (fo : FloatOps) (kb : KB) (hkb : FlatKB kb) : ∀ f, StmtN fo kb f ∧ StmtC fo kb f ∧ StmtA fo kb f := by
  intro f
  induction f with
  | zero =>
    refine ⟨?_, ?_, ?_⟩
    · intro N G0 st k bar h B hn; simp [next] at hn
    · intro t σ nb child idx n G0 st k bar h B hn; simp [callLoop] at hn
    · intro σ nb more head rest tail cutAcc G0 st k bar h B hn; simp [andLoop] at hn
  | succ f ih =>
    obtain ⟨ihN, ihC, ihA⟩ := ih
    refine ⟨?_, ?_, ?_⟩
    · intro N G0 st k bar h B hn hcn hask hg hB hbar
      cases N with
      | bip name args σ nb more =>
        obtain ⟨a, b, c⟩ := step_bip fo kb f name args σ nb more G0 st k bar h B hn hg
        exact ⟨a, b, fun _ => c⟩
      | call t σ nb child idx n =>
        obtain ⟨a, b⟩ := step_call fo kb f ihN ihC t σ nb child idx n G0 st k bar h B hn hcn hg hB hbar
        exact ⟨a, fun _ => b, fun _ hc => by rw [b] at hc; cases hc⟩
      | op kd σ nb more head rest tail =>
        cases kd with
        | and =>
          refine ⟨step_and fo kb f ihN ihA σ nb more head rest tail G0 st k bar h B hn hcn hask hg hB hbar, ?_, fun ha => ha.elim⟩
          rintro ⟨_, _, _, _, _, _, e⟩; cases e
        | or => exact hcn.elim
        | not => exact hcn.elim
        | time => exact hcn.elim
    · intro t σ nb child idx n G0 st k bar h B hn hnb hch hg hB hbar
      subst hnb
      exact step_callLoop fo kb hkb f ihN ihC t σ child idx n G0 st k bar h B hn hch hg hB hbar
    · intro σ nb more head rest tail cutAcc G0 st k bar h B hn hnb hflat hat hch htl hrt hg hB hbar
      exact step_andLoop fo kb f ihN ihA σ nb more head rest tail cutAcc G0 st k bar h B hn hnb hflat hat hch htl hrt hg hB hbar

/-- the requests on a call node of the fragment show what the reference machine with cut shows from the node's frames -/
theorem engine_refines_cut_machine (fo : FloatOps) (kb : KB) (hkb : FlatKB kb) :
    ∀ (fs : List Nat) (N : Node) (g : G), cutN N → kindOf N = 1 → GOK g →
      CRun fo kb ⟨absC N [] 0 0, g.counter, g.out⟩ (askOut fo kb fs N g) := by
  intro fs
  induction fs with
  | nil => intros; exact .nil
  | cons f fs ih =>
    intro N g hcn hk hg
    simp only [askOut]
    cases hn : next fo kb f N g with
    | ok st =>
      have hcall : ∃ t σ nb child idx n, N = .call t σ nb child idx n := by
        cases N with
        | bip _ _ _ _ _ => simp [kindOf] at hk
        | call t σ nb child idx n => exact ⟨_, _, _, _, _, _, rfl⟩
        | op kd _ _ _ _ _ _ => cases kd <;> simp [kindOf] at hk
      have hask : askable N := by obtain ⟨_, _, _, _, _, _, e⟩ := hcall; rw [e]; trivial
      obtain ⟨href, hcf, _⟩ := (next_refines_cut fo kb hkb f).1 N g st [] 0 0 [] hn hcn hask hg rfl (Nat.le_refl _)
      have hc := hcf hcall
      have hk' : kindOf st.node = 1 := by rw [next_kind fo kb f N g st hn, hk]
      simp only
      have h1 := href.1
      rw [hc] at h1
      cases hs : st.sol with
      | some σ' =>
        rw [hs] at h1
        simp only [kOf, hOf, bOf, Bool.false_eq_true, if_false, List.append_nil] at h1
        exact .ans h1 (ih st.node st.g href.2.1 hk' href.2.2.1)
      | none =>
        rw [hs] at h1
        simp only [bOf, Bool.false_eq_true, if_false, List.append_nil] at h1
        have := ih st.node st.g href.2.1 hk' href.2.2.1
        rw [h1.2 trivial [] 0 0] at this
        exact .fin h1.1 this
    | fail => exact .nil
    | panic => exact .nil
    | oof => exact .nil

/-- the same from the query: the machine started on the query goal -/
theorem query_refines_cut_machine (fo : FloatOps) (kb : KB) (hkb : FlatKB kb) (q : Term) (σ0 : Subst) (g0 g1 : G) (N : Node)
    (hmk : mkNode fo.showF kb (.call q) σ0 g0 = .ok (N, g1)) (hg : GOK g0) (fs : List Nat) :
    CRun fo kb ⟨[.goals [.g (.call q) 0] σ0], g0.counter, g0.out⟩ (askOut fo kb fs N g1) := by
  obtain ⟨hsteps, hc, ho, hg1, hcn, hat⟩ := mkAtom_steps fo kb (.call q) rfl σ0 g0 N g1 [] 0 0 [] hmk hg
  have hk : kindOf N = 1 := by
    simp only [mkNode] at hmk
    obtain ⟨_, _, hmk⟩ := Res.bind_eq_ok.mp hmk
    cases hmk; rfl
  have := engine_refines_cut_machine fo kb hkb fs N g1 hcn hk hg1
  rw [hc, ho] at this
  simp only [List.append_nil] at hsteps
  exact CRun.pre hsteps this


end Suiron.Spec
