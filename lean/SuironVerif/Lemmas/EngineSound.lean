/-
  Soundness of the engine model with respect to the declarative SLD reading (`Spec/SLD.lean`):
  every answer a node returns, at any request, is a derivable answer of the goal the node was
  made for.  (`NodeSound n P`: every answer the node can still give lies in `P`.)
-/
import SuironVerif.Spec.SLD
namespace Suiron.Spec
open Suiron

/-- every answer a node can still give lies in `P` -/
def NodeSound (fo : FloatOps) (kb : KB) : Node → (Subst → Prop) → Prop
  | .bip name args σ _ _, P => ∀ σ', Derives fo kb (.bip name args) σ σ' → P σ'
  | .call t σ _ child _ _, P =>
    (∀ σ', Derives fo kb (.call t) σ σ' → P σ') ∧
    (match child with | some c => NodeSound fo kb c P | none => True)
  | .op .and _ _ _ head rest tail, P =>
    NodeSound fo kb head (fun σ1 => ∀ σ', DerivesList fo kb rest σ1 σ' → P σ') ∧
    (match tail with | some tn => NodeSound fo kb tn P | none => True)
  | .op .or σ _ _ head rest tail, P =>
    NodeSound fo kb head P ∧ (∀ σ', Derives fo kb (.or rest) σ σ' → P σ') ∧
    (match tail with | some tn => NodeSound fo kb tn P | none => True)
  | .op .not σ _ _ _ _ _, P => P σ
  | .op .time _ _ _ head _ _, P => NodeSound fo kb head P

theorem NodeSound_setNb (fo : FloatOps) (kb : KB) (n : Node) (P : Subst → Prop) :
    NodeSound fo kb n.setNb P ↔ NodeSound fo kb n P := by
  cases n with
  | bip a b c d e => simp [Node.setNb, NodeSound]
  | call a b c d e f => unfold Node.setNb; unfold NodeSound; exact Iff.rfl
  | op k b c d e f g => cases k <;> (unfold Node.setNb; unfold NodeSound; exact Iff.rfl)

theorem mkNode_sound (fo : FloatOps) (kb : KB) : (goal : Goal) → (σ : Subst) → (g : G) → (node : Node) → (g' : G) →
    (P : Subst → Prop) → mkNode fo.showF kb goal σ g = .ok (node, g') →
    (∀ σ', Derives fo kb goal σ σ' → P σ') → NodeSound fo kb node P
  | .call t, σ, g, node, g', P, h, hP => by
    simp only [mkNode] at h
    obtain ⟨key, _, h⟩ := Res.bind_eq_ok.mp h
    cases h
    exact ⟨hP, trivial⟩
  | .bip name args, σ, g, node, g', P, h, hP => by
    simp only [mkNode] at h; cases h; exact hP
  | .and (.cons hd rest), σ, g, node, g', P, h, hP => by
    simp only [mkNode] at h
    obtain ⟨r, hr, h⟩ := Res.bind_eq_ok.mp h
    cases h
    refine ⟨?_, trivial⟩
    exact mkNode_sound fo kb hd σ g r.1 r.2 _ hr (fun σ1 h1 σ' h2 => hP σ' (Derives.and (DerivesList.cons h1 h2)))
  | .or (.cons hd rest), σ, g, node, g', P, h, hP => by
    simp only [mkNode] at h
    obtain ⟨r, hr, h⟩ := Res.bind_eq_ok.mp h
    cases h
    refine ⟨?_, ?_, trivial⟩
    · exact mkNode_sound fo kb hd σ g r.1 r.2 _ hr (fun σ' h1 => hP σ' (Derives.or (Or.inl rfl) h1))
    · intro σ' hd'
      cases hd' with
      | or hm hg => exact hP σ' (Derives.or (Or.inr hm) hg)
  | .time (.cons hd rest), σ, g, node, g', P, h, hP => by
    simp only [mkNode] at h
    obtain ⟨r, hr, h⟩ := Res.bind_eq_ok.mp h
    cases h
    exact mkNode_sound fo kb hd σ g r.1 r.2 _ hr (fun σ' h1 => hP σ' (Derives.time h1))
  | .not (.cons hd rest), σ, g, node, g', P, h, hP => by
    simp only [mkNode] at h
    obtain ⟨r, hr, h⟩ := Res.bind_eq_ok.mp h
    cases h
    exact hP σ Derives.not
  | .and .nil, σ, g, node, g', P, h, hP => by simp [mkNode] at h
  | .or .nil, σ, g, node, g', P, h, hP => by simp [mkNode] at h
  | .time .nil, σ, g, node, g', P, h, hP => by simp [mkNode] at h
  | .not .nil, σ, g, node, g', P, h, hP => by simp [mkNode] at h
  | .nil, σ, g, node, g', P, h, hP => by simp [mkNode] at h


open Suiron

def StepSound (fo : FloatOps) (kb : KB) (st : Step) (P : Subst → Prop) : Prop :=
  (∀ σ', st.sol = some σ' → P σ') ∧ NodeSound fo kb st.node P

theorem next_sound (fo : FloatOps) (kb : KB) : ∀ f,
    (∀ node g st (P : Subst → Prop), NodeSound fo kb node P → next fo kb f node g = .ok st → StepSound fo kb st P) ∧
    (∀ t σ nb child idx n g st (P : Subst → Prop), (∀ σ', Derives fo kb (.call t) σ σ' → P σ') →
        (match child with | some c => NodeSound fo kb c P | none => True) →
        callLoop fo kb f t σ nb child idx n g = .ok st → StepSound fo kb st P) ∧
    (∀ σ nb more head rest tail cutAcc g st (P : Subst → Prop),
        NodeSound fo kb head (fun σ1 => ∀ σ', DerivesList fo kb rest σ1 σ' → P σ') →
        (match tail with | some tn => NodeSound fo kb tn P | none => True) →
        andLoop fo kb f σ nb more head rest tail cutAcc g = .ok st → StepSound fo kb st P) := by
  intro f
  induction f with
  | zero =>
    refine ⟨?_, ?_, ?_⟩
    · intro n g st P _ h; simp [next] at h
    · intro t σ nb child idx n g st P _ _ h; simp [callLoop] at h
    · intro σ nb more head rest tail cutAcc g st P _ _ h; simp [andLoop] at h
  | succ f ih =>
    obtain ⟨ihN, ihC, ihA⟩ := ih
    refine ⟨?_, ?_, ?_⟩
    · intro node g st P hs h
      by_cases hnb : node.nb = true
      · simp [next, hnb] at h; subst h; exact ⟨(by intro _ h; cases h), hs⟩
      · cases node with
        | bip name args σ nb more =>
          simp [Node.nb] at hnb; subst hnb
          simp only [next, Node.nb] at h; simp at h
          by_cases hm : more = true
          · simp [hm] at h
            by_cases hc : name = "!"
            · simp [hc] at h; subst h
              subst hc
              refine ⟨?_, ?_⟩
              · intro σ' he; simp at he; subst he; exact hs _ Derives.cut
              · exact hs
            · simp [hc] at h
              obtain ⟨r, hr, h⟩ := Res.bind_eq_ok.mp h; cases h
              refine ⟨?_, hs⟩
              intro σ' he
              simp at he
              have : r = ⟨some σ', r.out⟩ := by cases r; simp_all
              rw [this] at hr
              exact hs _ (Derives.bip hr)
          · simp at hm; subst hm; simp at h; subst h; exact ⟨(by intro _ h; cases h), hs⟩
        | call t σ nb child idx n =>
          simp [Node.nb] at hnb; subst hnb
          simp only [next, Node.nb] at h; simp at h
          unfold NodeSound at hs
          cases child with
          | none => simp at h; exact ihC _ _ _ _ _ _ _ _ P hs.1 trivial h
          | some c =>
            simp at h hs
            obtain ⟨r, hr, h⟩ := Res.bind_eq_ok.mp h
            have hc := ihN _ _ _ P hs.2 hr
            by_cases hsol : r.sol.isSome = true
            · simp [hsol] at h; subst h
              refine ⟨hc.1, ?_⟩
              unfold NodeSound; exact ⟨hs.1, hc.2⟩
            · simp [hsol] at h
              exact ihC _ _ _ _ _ _ _ _ P hs.1 trivial h
        | op k σ nb more head rest tail =>
          simp [Node.nb] at hnb; subst hnb
          cases k with
          | and =>
            simp only [next, Node.nb] at h; simp at h
            unfold NodeSound at hs
            cases tail with
            | none => simp at h; exact ihA _ _ _ _ _ _ _ _ _ P hs.1 trivial h
            | some tn =>
              simp at h hs
              obtain ⟨r, hr, h⟩ := Res.bind_eq_ok.mp h
              have hc := ihN _ _ _ P hs.2 hr
              have hh : NodeSound fo kb (if r.cut = true then head.setNb else head)
                  (fun σ1 => ∀ σ', DerivesList fo kb rest σ1 σ' → P σ') := by
                split
                · exact (NodeSound_setNb fo kb head _).mpr hs.1
                · exact hs.1
              by_cases hsol : r.sol.isSome = true
              · simp [hsol] at h; subst h
                refine ⟨hc.1, ?_⟩
                unfold NodeSound; exact ⟨hh, hc.2⟩
              · simp [hsol] at h
                exact ihA _ _ _ _ _ _ _ _ _ P hh hc.2 h
          | or =>
            simp only [next, Node.nb] at h; simp at h
            unfold NodeSound at hs
            cases tail with
            | some tn =>
              simp at h hs
              obtain ⟨r, hr, h⟩ := Res.bind_eq_ok.mp h
              have hc := ihN _ _ _ P hs.2.2 hr
              cases h
              refine ⟨hc.1, ?_⟩
              unfold NodeSound
              refine ⟨?_, hs.2.1, hc.2⟩
              split
              · exact (NodeSound_setNb fo kb head _).mpr hs.1
              · exact hs.1
            | none =>
              simp at h hs
              obtain ⟨r, hr, h⟩ := Res.bind_eq_ok.mp h
              have hc := ihN _ _ _ P hs.1 hr
              have hh : NodeSound fo kb (if r.cut = true then r.node.setNb else r.node) P := by
                split
                · exact (NodeSound_setNb fo kb _ _).mpr hc.2
                · exact hc.2
              by_cases hsol : r.sol.isSome = true
              · simp [hsol] at h; subst h
                refine ⟨hc.1, ?_⟩
                unfold NodeSound; exact ⟨hh, hs.2, trivial⟩
              · simp [hsol] at h
                by_cases hl : rest.length = 0
                · simp [hl] at h; subst h
                  refine ⟨(by intro _ h; cases h), ?_⟩
                  unfold NodeSound; exact ⟨hh, hs.2, trivial⟩
                · simp [hl] at h
                  by_cases hcut : r.cut = true
                  · simp [hcut] at h; subst h
                    refine ⟨(by intro _ h; cases h), ?_⟩
                    unfold NodeSound
                    refine ⟨?_, hs.2, trivial⟩
                    simpa [hcut] using hh
                  · simp [hcut] at h
                    obtain ⟨m, hm, h⟩ := Res.bind_eq_ok.mp h
                    obtain ⟨r2, hr2, h⟩ := Res.bind_eq_ok.mp h
                    have hm' := mkNode_sound fo kb _ _ _ m.1 m.2 P hm hs.2
                    have hc2 := ihN _ _ _ P hm' hr2
                    cases h
                    refine ⟨hc2.1, ?_⟩
                    unfold NodeSound
                    refine ⟨?_, hs.2, hc2.2⟩
                    have hh' : NodeSound fo kb r.node P := by simpa [hcut] using hh
                    split
                    · exact (NodeSound_setNb fo kb _ _).mpr hh'
                    · exact hh'
          | not =>
            simp only [next, Node.nb] at h; simp at h
            unfold NodeSound at hs
            by_cases hm : more = true
            · simp [hm] at h
              obtain ⟨r, hr, h⟩ := Res.bind_eq_ok.mp h
              cases h
              refine ⟨?_, ?_⟩
              · intro σ' he
                simp at he
                obtain ⟨_, he⟩ := he; subst he; exact hs
              · unfold NodeSound; exact hs
            · simp at hm; subst hm; simp at h; subst h
              exact ⟨(by intro _ h; cases h), (by unfold NodeSound; exact hs)⟩
          | time =>
            simp only [next, Node.nb] at h; simp at h
            unfold NodeSound at hs
            by_cases hm : more = true
            · simp [hm] at h
              obtain ⟨r, hr, h⟩ := Res.bind_eq_ok.mp h
              have hc := ihN _ _ _ P hs hr
              cases h
              refine ⟨hc.1, ?_⟩
              unfold NodeSound
              split
              · exact (NodeSound_setNb fo kb _ _).mpr hc.2
              · exact hc.2
            · simp at hm; subst hm; simp at h; subst h
              exact ⟨(by intro _ h; cases h), (by unfold NodeSound; exact hs)⟩
    · intro t σ nb child idx n g st P hP hch h
      simp only [callLoop] at h
      have hnode : ∀ nb' idx' , NodeSound fo kb (.call t σ nb' child idx' n) P := by
        intro nb' idx'; unfold NodeSound; exact ⟨hP, hch⟩
      by_cases hnb : nb = true
      · simp [hnb] at h; subst h; exact ⟨(by intro _ h; cases h), hnode _ _⟩
      · simp [hnb] at h
        by_cases hge : n ≤ idx
        · simp [hge] at h; subst h; exact ⟨(by intro _ h; cases h), hnode _ _⟩
        · simp [hge] at h
          obtain ⟨key, hkey, h⟩ := Res.bind_eq_ok.mp h
          obtain ⟨rc, hrc, h⟩ := Res.bind_eq_ok.mp h
          split at h
          · exact ihC _ _ _ _ _ _ _ _ P hP hch h
          · cases h
          · cases h
          · rename_i σ1 hu
            have hrc' : getRule kb key idx g.counter = .ok (rc.1, rc.2) := by rw [hrc]
            split at h
            · rename_i hnil
              cases h
              refine ⟨?_, hnode _ _⟩
              intro σ' he; simp at he; subst he
              exact hP _ (Derives.fact hkey hrc' hu hnil)
            · obtain ⟨m, hm, h⟩ := Res.bind_eq_ok.mp h
              obtain ⟨r, hr, h⟩ := Res.bind_eq_ok.mp h
              have hm' := mkNode_sound fo kb _ _ _ m.1 m.2 P hm
                (fun σ' hd => hP σ' (Derives.rule hkey hrc' hu hd))
              have hc := ihN _ _ _ P hm' hr
              by_cases hsol : r.sol.isSome = true
              · simp [hsol] at h; subst h
                refine ⟨hc.1, ?_⟩
                unfold NodeSound; exact ⟨hP, hc.2⟩
              · simp [hsol] at h
                exact ihC _ _ _ _ _ _ _ _ P hP hc.2 h
    · intro σ nb more head rest tail cutAcc g st P hh ht h
      simp only [andLoop] at h
      obtain ⟨r, hr, h⟩ := Res.bind_eq_ok.mp h
      have hc := ihN _ _ _ _ hh hr
      have hh1 : NodeSound fo kb (if r.cut = true then r.node.setNb else r.node)
          (fun σ1 => ∀ σ', DerivesList fo kb rest σ1 σ' → P σ') := by
        split
        · exact (NodeSound_setNb fo kb _ _).mpr hc.2
        · exact hc.2
      cases hrs : r.sol with
      | none =>
        simp [hrs] at h; subst h
        refine ⟨(by intro _ h; cases h), ?_⟩
        unfold NodeSound; exact ⟨hh1, ht⟩
      | some ss =>
        simp [hrs] at h
        have hss := hc.1 ss hrs
        by_cases hl : rest.length = 0
        · simp [hl] at h; subst h
          refine ⟨?_, ?_⟩
          · intro σ' he; simp at he; subst he
            have : rest = .nil := by cases rest with | nil => rfl | cons a b => simp [GoalList.length] at hl
            subst this
            exact hss _ DerivesList.nil
          · unfold NodeSound; exact ⟨hh1, ht⟩
        · simp [hl] at h
          obtain ⟨m, hm, h⟩ := Res.bind_eq_ok.mp h
          obtain ⟨r2, hr2, h⟩ := Res.bind_eq_ok.mp h
          have hm' := mkNode_sound fo kb _ _ _ m.1 m.2 P hm
            (fun σ' hd => by cases hd with | and hl' => exact hss σ' hl')
          have hc2 := ihN _ _ _ P hm' hr2
          have hh2 : NodeSound fo kb (if r2.cut = true then (if r.cut = true then r.node.setNb else r.node).setNb
                else (if r.cut = true then r.node.setNb else r.node))
              (fun σ1 => ∀ σ', DerivesList fo kb rest σ1 σ' → P σ') := by
            split
            · exact (NodeSound_setNb fo kb _ _).mpr hh1
            · exact hh1
          by_cases hsol : r2.sol.isSome = true
          · simp [hsol] at h; subst h
            refine ⟨hc2.1, ?_⟩
            unfold NodeSound; exact ⟨hh2, hc2.2⟩
          · simp [hsol] at h
            exact ihA _ _ _ _ _ _ _ _ _ P hh2 hc2.2 h

end Suiron.Spec
