/-
  C20 / C19: every CANONICAL term text is a good left operand of `=`.

  A canonical text (`Canon`, `Lemmas/RoundTrip.lean`) has no `<`, `>`, `=` and no quote (`canon_infixFree`), and each of its
  `(` is followed by its `)` (`canon_parenNext`); so `T = R` is the unification of the term of T with `parse_term R`
  (`canon_as_infix_operand`).
-/
import SuironVerif.Lemmas.RoundTripFact
import SuironVerif.Lemmas.ParseInfixStruct
namespace Suiron.Parse
open Suiron

theorem letter_not_infix {c : Char} (h : isLetter c = true) : c ≠ '<' ∧ c ≠ '>' ∧ c ≠ '=' ∧ c ≠ '(' := by
  have hn : (97 ≤ c.toNat ∧ c.toNat ≤ 122) ∨ (65 ≤ c.toNat ∧ c.toNat ≤ 90) := by
    simp only [isLetter, Bool.or_eq_true, Bool.and_eq_true, decide_eq_true_eq] at h
    exact h
  have ne : ∀ (x : Char), (x.toNat < 65) → c ≠ x := by intro x hx e; subst e; omega
  exact ⟨ne _ (by decide), ne _ (by decide), ne _ (by decide), ne _ (by decide)⟩

theorem digit_not_infix {c : Char} (h : isDigit c = true) : c ≠ '<' ∧ c ≠ '>' ∧ c ≠ '=' ∧ c ≠ '(' := by
  unfold isDigit at h
  simp only [Bool.and_eq_true, decide_eq_true_eq] at h
  have h0 : ('0' : Char).toNat = 48 := rfl
  have h9 : ('9' : Char).toNat = 57 := rfl
  have ne : ∀ (x : Char), (x.toNat < 48 ∨ 57 < x.toNat) → c ≠ x := by intro x hx e; subst e; omega
  exact ⟨ne _ (by decide), ne _ (by decide), ne _ (by decide), ne _ (by decide)⟩

/-- the characters of a canonical text that are not letters or digits -/
def plainPunct (c : Char) : Prop := c = '-' ∨ c = '$' ∨ c = ',' ∨ c = ' ' ∨ c = '[' ∨ c = ']' ∨ c = '|' ∨ c = '_' ∨ c = '(' ∨ c = ')'

/-- every character of a canonical text is a letter, a digit or one of ten punctuation characters -/
theorem canon_alphabet {d : Nat} {T : Text} {t : Term} (h : Canon d T t) : ∀ c ∈ T, isLetter c = true ∨ isDigit c = true ∨ plainPunct c := by
  induction h with
  | int d i _ _ =>
    intro c hc
    cases i with
    | ofNat m => rw [int_text_pos] at hc; exact Or.inr (Or.inl ((repr_digits m).1 c hc).1)
    | negSucc m =>
      rw [int_text_neg] at hc
      rcases List.mem_cons.mp hc with e | e
      · exact Or.inr (Or.inr (Or.inl e))
      · exact Or.inr (Or.inl ((repr_digits (m + 1)).1 c e).1)
  | word d s h => intro c hc; exact Or.inl (h.2 c hc)
  | var d s h =>
    intro c hc
    rcases List.mem_cons.mp hc with e | e
    · exact Or.inr (Or.inr (Or.inr (Or.inl e)))
    · exact Or.inl (h.2 c e)
  | cplx d fn as ts hf hne hlen _ _ _ ih =>
    intro c hc
    simp only [List.mem_append, List.mem_cons, List.mem_singleton] at hc
    rcases hc with (hc | hc | hc) | hc
    · exact Or.inl (hf.2 c hc)
    · exact Or.inr (Or.inr (by unfold plainPunct; simp [hc]))
    · rcases mem_joinArgs as c hc with ⟨a, ha, hca⟩ | e | e
      · obtain ⟨i, hi, e⟩ := List.mem_iff_getElem.mp ha
        exact ih i hi (by omega) c (by rw [e]; exact hca)
      · exact Or.inr (Or.inr (by unfold plainPunct; simp [e]))
      · exact Or.inr (Or.inr (by unfold plainPunct; simp [e]))
    · rcases hc with hc | hc
      · exact Or.inr (Or.inr (by unfold plainPunct; simp [hc]))
      · cases hc
  | elist d => intro c hc; simp at hc; rcases hc with e | e <;> exact Or.inr (Or.inr (by unfold plainPunct; simp [e]))
  | zero d fn hf _ _ =>
    intro c hc
    simp only [List.mem_append, List.mem_cons, List.mem_nil_iff, or_false] at hc
    rcases hc with hc | hc | hc
    · exact Or.inl (hf.2 c hc)
    · exact Or.inr (Or.inr (by unfold plainPunct; simp [hc]))
    · exact Or.inr (Or.inr (by unfold plainPunct; simp [hc]))
  | phrase d s h =>
    intro c hc
    rcases h.chars c hc with e | e
    · exact Or.inl e
    · exact Or.inr (Or.inr (by unfold plainPunct; simp [e]))
  | anon d => intro c hc; simp at hc; rcases hc with e | e <;> exact Or.inr (Or.inr (by unfold plainPunct; simp [e]))
  | list d as ts hne hlen _ ih =>
    intro c hc
    simp only [List.cons_append, List.mem_cons, List.mem_append, List.mem_nil_iff, or_false] at hc
    rcases hc with hc | hc | hc
    · exact Or.inr (Or.inr (by unfold plainPunct; simp [hc]))
    · rcases mem_joinArgs as c hc with ⟨a, ha, hca⟩ | e | e
      · obtain ⟨i, hi, e⟩ := List.mem_iff_getElem.mp ha
        exact ih i hi (by omega) c (by rw [e]; exact hca)
      · exact Or.inr (Or.inr (by unfold plainPunct; simp [e]))
      · exact Or.inr (Or.inr (by unfold plainPunct; simp [e]))
    · exact Or.inr (Or.inr (by unfold plainPunct; simp [hc]))
  | tlist d as ts name hne hlen _ hn ih =>
    intro c hc
    simp only [tailInner, List.cons_append, List.mem_cons, List.mem_append, List.mem_nil_iff, or_false] at hc
    rcases hc with hc | (hc | hc | hc | hc | hc | hc) | hc
    · exact Or.inr (Or.inr (by unfold plainPunct; simp [hc]))
    · rcases mem_joinArgs as c hc with ⟨a, ha, hca⟩ | e | e
      · obtain ⟨i, hi, e⟩ := List.mem_iff_getElem.mp ha
        exact ih i hi (by omega) c (by rw [e]; exact hca)
      · exact Or.inr (Or.inr (by unfold plainPunct; simp [e]))
      · exact Or.inr (Or.inr (by unfold plainPunct; simp [e]))
    · exact Or.inr (Or.inr (by unfold plainPunct; simp [hc]))
    · exact Or.inr (Or.inr (by unfold plainPunct; simp [hc]))
    · exact Or.inr (Or.inr (by unfold plainPunct; simp [hc]))
    · exact Or.inr (Or.inr (by unfold plainPunct; simp [hc]))
    · exact Or.inl (hn.2 c hc)
    · exact Or.inr (Or.inr (by unfold plainPunct; simp [hc]))

theorem canon_infixFree {d : Nat} {T : Text} {t : Term} (h : Canon d T t) : infixFree T = true := by
  unfold infixFree
  rw [List.all_eq_true]
  intro c hc
  have hq := (canon_chars h c hc).2
  rcases canon_alphabet h c hc with e | e | e
  · have := letter_not_infix e
    simp [this.1, this.2.1, this.2.2.1, hq]
  · have := digit_not_infix e
    simp [this.1, this.2.1, this.2.2.1, hq]
  · unfold plainPunct at e
    rcases e with e | e | e | e | e | e | e | e | e | e <;> subst e <;> decide

/-! ### every `(` of a canonical text is followed by a `)` -/

theorem parenNext_noparen : ∀ T : Text, (∀ c ∈ T, c ≠ '(') → parenNext T = true
  | [], _ => rfl
  | c :: rest, h => by
    have : (c == '(') = false := by simpa using h c (by simp)
    simp only [parenNext, this, Bool.not_false, Bool.true_or, Bool.true_and]
    exact parenNext_noparen rest (fun x hx => h x (by simp [hx]))

theorem parenNext_append : ∀ a b : Text, parenNext a = true → parenNext b = true → parenNext (a ++ b) = true
  | [], b, _, hb => hb
  | c :: a, b, ha, hb => by
    simp only [parenNext, Bool.and_eq_true, Bool.or_eq_true, Bool.not_eq_true'] at ha
    simp only [List.cons_append, parenNext, Bool.and_eq_true, Bool.or_eq_true, Bool.not_eq_true']
    refine ⟨?_, parenNext_append a b ha.2 hb⟩
    rcases ha.1 with h | h
    · exact Or.inl h
    · right
      simp only [List.contains_eq_mem, List.mem_append, decide_eq_true_eq] at h ⊢
      exact Or.inl h

theorem parenNext_joinArgs : ∀ as : List Text, (∀ a ∈ as, parenNext a = true) → parenNext (joinArgs as) = true
  | [], _ => rfl
  | [a], h => by simpa [joinArgs] using h a (by simp)
  | a :: b :: rest, h => by
    simp only [joinArgs]
    apply parenNext_append _ _ (h a (by simp))
    have : parenNext (',' :: ' ' :: joinArgs (b :: rest)) = parenNext (joinArgs (b :: rest)) := by simp [parenNext]
    rw [this]
    exact parenNext_joinArgs (b :: rest) (fun x hx => h x (by simp [hx]))

theorem canon_parenNext {d : Nat} {T : Text} {t : Term} (h : Canon d T t) : parenNext T = true := by
  induction h with
  | int d i _ _ =>
    apply parenNext_noparen
    intro c hc
    cases i with
    | ofNat m => rw [int_text_pos] at hc; exact (digit_not_infix ((repr_digits m).1 c hc).1).2.2.2
    | negSucc m =>
      rw [int_text_neg] at hc
      rcases List.mem_cons.mp hc with e | e
      · subst e; decide
      · exact (digit_not_infix ((repr_digits (m + 1)).1 c e).1).2.2.2
  | word d s h => exact parenNext_noparen s (fun c hc => (letter_not_infix (h.2 c hc)).2.2.2)
  | var d s h =>
    apply parenNext_noparen
    intro c hc
    rcases List.mem_cons.mp hc with e | e
    · subst e; decide
    · exact (letter_not_infix (h.2 c e)).2.2.2
  | cplx d fn as ts hf hne hlen _ _ _ ih =>
    have hj : parenNext (joinArgs as) = true := by
      apply parenNext_joinArgs
      intro a ha
      obtain ⟨i, hi, e⟩ := List.mem_iff_getElem.mp ha
      rw [← e]; exact ih i hi (by omega)
    rw [show fn ++ '(' :: joinArgs as ++ [')'] = fn ++ ('(' :: (joinArgs as ++ [')'])) from by simp]
    apply parenNext_append _ _ (parenNext_noparen fn (fun c hc => (letter_not_infix (hf.2 c hc)).2.2.2))
    simp only [parenNext, Bool.and_eq_true, Bool.or_eq_true, Bool.not_eq_true']
    refine ⟨Or.inr (by simp), ?_⟩
    exact parenNext_append _ _ hj (by decide)
  | elist d => decide
  | zero d fn hf _ _ =>
    apply parenNext_append _ _ (parenNext_noparen fn (fun c hc => (letter_not_infix (hf.2 c hc)).2.2.2))
    decide
  | phrase d s h =>
    apply parenNext_noparen
    intro c hc
    rcases h.chars c hc with e | e
    · exact (letter_not_infix e).2.2.2
    · subst e; decide
  | anon d => decide
  | list d as ts hne hlen _ ih =>
    have hj : parenNext (joinArgs as) = true := by
      apply parenNext_joinArgs
      intro a ha
      obtain ⟨i, hi, e⟩ := List.mem_iff_getElem.mp ha
      rw [← e]; exact ih i hi (by omega)
    rw [show '[' :: joinArgs as ++ [']'] = ['['] ++ (joinArgs as ++ [']']) from rfl]
    exact parenNext_append _ _ (by decide) (parenNext_append _ _ hj (by decide))
  | tlist d as ts name hne hlen _ hn ih =>
    have hj : parenNext (joinArgs as) = true := by
      apply parenNext_joinArgs
      intro a ha
      obtain ⟨i, hi, e⟩ := List.mem_iff_getElem.mp ha
      rw [← e]; exact ih i hi (by omega)
    have hv : parenNext (' ' :: '|' :: ' ' :: '$' :: name) = true := by
      apply parenNext_noparen
      intro c hc
      simp only [List.mem_cons] at hc
      rcases hc with e | e | e | e | e
      · subst e; decide
      · subst e; decide
      · subst e; decide
      · subst e; decide
      · exact (letter_not_infix (hn.2 c e)).2.2.2
    rw [show '[' :: tailInner as name ++ [']'] = ['['] ++ ((joinArgs as ++ (' ' :: '|' :: ' ' :: '$' :: name)) ++ [']']) from rfl]
    exact parenNext_append _ _ (by decide) (parenNext_append _ _ (parenNext_append _ _ hj hv) (by decide))

/-- C20 / C19, A CANONICAL TERM AS THE LEFT OPERAND OF `=`: the subgoal `T = R` is the unification of the term of T with
    `parse_term R` -/
theorem canon_as_infix_operand (po : POps) (hα : ∀ c, isLetter c = true → po.isAlpha c = true) {d : Nat} {T : Text} {t : Term}
    (h : Canon d T t) (f : Nat) {R : Text} (hrtrim : trim R = R) (hr : R ≠ []) :
    parseSubgoal po (3 * d + 3 + f + 1) (T ++ ' ' :: '=' :: ' ' :: R) =
      (parseTerm po (3 * d + 3 + f) R).bind fun r => .ok (.bip "unify" (some (.cons t (.cons r .nil)))) := by
  have hI := canon_inv h
  rw [parseSubgoal_struct_unify po (3 * d + 3 + f) hI.trimmed hI.nonempty (canon_infixFree h) (canon_parenNext h) hrtrim hr,
    parse_canon po hα h f]
  rfl

/-- the same for every infix of a subgoal: `T op R` is the built-in predicate of the operator applied to the term of T and
    `parse_term R` -/
theorem canon_as_cmp_operand (po : POps) (hα : ∀ c, isLetter c = true → po.isAlpha c = true) (op : Cmp) {d : Nat} {T : Text} {t : Term}
    (h : Canon d T t) (f : Nat) {R : Text} (hrtrim : trim R = R) (hr : R ≠ []) :
    parseSubgoal po (3 * d + 3 + f + 1) (T ++ ' ' :: op.text ++ ' ' :: R) =
      (parseTerm po (3 * d + 3 + f) R).bind fun r => .ok (.bip op.name (some (.cons t (.cons r .nil)))) := by
  have hI := canon_inv h
  rw [parseSubgoal_struct_cmp po (3 * d + 3 + f) op hI.trimmed hI.nonempty (canon_infixFree h) (canon_parenNext h) hrtrim hr,
    parse_canon po hα h f]
  rfl

end Suiron.Parse
