/-
  C20 / C19 beyond tokens: LISTS OF SEVERAL ELEMENTS.

  `parse_linked_list [T1, T2, ..., Tn]` links `parse_term Tn`, ..., `parse_term T1` in front of the empty list — the elements
  are read from the right (`listLoop_pre`: one element followed by more text, `list_comma_step`: the blank and the comma in
  front of an element, by induction on the elements in the order they are met).
-/
import SuironVerif.Lemmas.ParseListSim
import SuironVerif.Lemmas.ParseArgsMulti
namespace Suiron.Parse
open Suiron

theorem listLoop_pre (po : POps) (pt : Text → Res Term) (T post : Text) (hpost : post ≠ []) (hph : post.head? ≠ some '\\')
    (hbal : dpScan T ⟨0, 0, false⟩ = ⟨0, 0, false⟩) (hbs : ∀ c ∈ T, c ≠ '\\')
    (hcm : noTopComma T ⟨0, 0, false⟩ = true) (hbar : noTopBar T ⟨0, 0, false⟩ = true) :
    ∀ (rv S : Text) (st : ListSt), T = rv.reverse ++ S → st.seg = S → st.dp = bScan S.reverse ⟨0, 0, false⟩ →
      st.numQuotes = qCount S (dpScan rv.reverse ⟨0, 0, false⟩) →
      ∃ st', listLoop po pt (rv ++ post) st = listLoop po pt post st' ∧ st'.seg = T ∧ st'.numQuotes = qCount T ⟨0, 0, false⟩ ∧
        st'.list = st.list ∧ st'.vbar = st.vbar ∧ st'.dp = bScan T.reverse ⟨0, 0, false⟩ := by
  intro rv
  induction rv with
  | nil =>
    intro S st hT hseg hdp hnq
    have hTS : T = S := by simpa using hT
    exact ⟨st, rfl, by rw [hseg, hTS], by rw [hnq, hTS]; rfl, rfl, rfl, by rw [hdp, hTS]⟩
  | cons c rv' ih =>
    intro S st hT hseg hdp hnq
    have hT' : T = rv'.reverse ++ c :: S := by rw [hT]; simp
    have hbal' : dpScan (rv'.reverse ++ c :: S) ⟨0, 0, false⟩ = ⟨0, 0, false⟩ := by rw [← hT']; exact hbal
    have hbf := back_is_forward rv'.reverse c S hbal'
    have hdp' : st.dp = dpStep c (dpScan rv'.reverse ⟨0, 0, false⟩) := by rw [hdp, hbf]
    generalize hdP : dpScan rv'.reverse ⟨0, 0, false⟩ = dP at hdp' hbf
    -- no comma and no bar of the element's own
    have hc1 : topComma c dP = false := by
      have := noTopComma_split rv'.reverse c S ⟨0, 0, false⟩ (by rw [← hT']; exact hcm)
      rw [hdP] at this; exact this
    have hb1 : topBar c dP = false := by
      have := noTopBar_split rv'.reverse c S ⟨0, 0, false⟩ (by rw [← hT']; exact hbar)
      rw [hdP] at this; exact this
    have hround : st.round = (dpStep c dP).round := by have := congrArg Dp.round hdp'; exact this
    have hsquare : st.square = (dpStep c dP).square := by have := congrArg Dp.square hdp'; exact this
    have hopen : st.openQuote = (dpStep c dP).oq := by have := congrArg Dp.oq hdp'; exact this
    have hcm' : (c == ',' && !st.openQuote && st.round == 0 && st.square == 0) = false := by
      by_cases hcc : (c == ',') = true
      · have hc : c = ',' := by simpa using hcc
        subst hc
        rw [hround, hsquare, hopen]
        by_cases hoq : dP.oq = true
        · simp [dpStep, hoq]
        · have hoq' : dP.oq = false := by simpa using hoq
          simp only [topComma, hoq', Bool.not_false, Bool.and_true, Bool.true_and] at hc1
          simp only [dpStep, hoq', Bool.false_eq_true, if_false, show ((',' : Char) == '"') = false from by decide,
            show ((',' : Char) == '[') = false from by decide, show ((',' : Char) == ']') = false from by decide,
            show ((',' : Char) == '(') = false from by decide, show ((',' : Char) == ')') = false from by decide,
            Bool.not_false, Bool.and_true, Bool.true_and]
          rw [Bool.and_assoc] at hc1
          simpa using hc1
      · have hcc' : (c == ',') = false := by simpa using hcc
        simp [hcc']
    have hbar' : (c == '|' && !st.openQuote && st.round == 0 && st.square == 0) = false := by
      by_cases hcc : (c == '|') = true
      · have hc : c = '|' := by simpa using hcc
        subst hc
        rw [hround, hsquare, hopen]
        by_cases hoq : dP.oq = true
        · simp [dpStep, hoq]
        · have hoq' : dP.oq = false := by simpa using hoq
          simp only [topBar, hoq', Bool.not_false, Bool.and_true, Bool.true_and] at hb1
          simp only [dpStep, hoq', Bool.false_eq_true, if_false, show (('|' : Char) == '"') = false from by decide,
            show (('|' : Char) == '[') = false from by decide, show (('|' : Char) == ']') = false from by decide,
            show (('|' : Char) == '(') = false from by decide, show (('|' : Char) == ')') = false from by decide,
            Bool.not_false, Bool.and_true, Bool.true_and]
          rw [Bool.and_assoc] at hb1
          simpa using hb1
      · have hcc' : (c == '|') = false := by simpa using hcc
        simp [hcc']
    obtain ⟨st1, h1, hs1, hd1, hq1, hl1, hv1⟩ := listStep_struct po pt c st hcm' hbar'
    have hesc : ((rv' ++ post).head? == some '\\') = false := by
      cases rv' with
      | nil =>
        simp only [List.nil_append]
        cases hh : post.head? with
        | none => rfl
        | some x => rw [hh] at hph; simpa using hph
      | cons a t =>
        have : a ≠ '\\' := hbs a (by rw [hT]; simp)
        simpa using this
    have hnq1 : st1.numQuotes = qCount (c :: S) dP := by
      rw [hq1, hnq]
      simp only [List.reverse_cons, dpScan_append, dpScan, hdP, qCount]
      have := quote_cond c st.dp dP hdp'
      simp only [ListSt.dp] at this
      rw [this, Nat.add_comm]
    have hdp1 : st1.dp = bScan (c :: S).reverse ⟨0, 0, false⟩ := by
      rw [hd1, hdp, List.reverse_cons, bScan_append]; rfl
    simp only [List.cons_append, listLoop, hesc, h1, Res.bind_ok]
    have hne2 : rv' ++ post ≠ [] := by simp [hpost]
    cases hrp : rv' ++ post with
    | nil => exact absurd hrp hne2
    | cons a t =>
      simp only
      rw [← hrp]
      obtain ⟨st', h2, hs2, hq2, hl2, hv2, hd2⟩ := ih (c :: S) st1 hT' (by rw [hs1, hseg]) hdp1 (by rw [hnq1, hdP])
      exact ⟨st', h2, hs2, hq2, by rw [hl2, hl1], by rw [hv2, hv1], hd2⟩

/-- the characters of `T1, T2, ..., Tn` in the order the list parser meets them, given the elements last first -/
def revJoin : List Text → Text
  | [] => []
  | [a] => a.reverse
  | a :: b :: rest => a.reverse ++ ' ' :: ',' :: revJoin (b :: rest)

/-- each element parsed on its own, last first, and linked in front of what has been built -/
def parseR (pt : Text → Res Term) : List Text → Term → Res Term
  | [], L => .ok L
  | a :: rest, L => (pt a).bind fun t => (linkFront t false L).bind fun L' => parseR pt rest L'

/-- between two elements: nothing collected, nothing open -/
structure Bnd (st : ListSt) : Prop where
  seg : st.seg = []
  nq : st.numQuotes = 0
  rd : st.round = 0
  sq : st.square = 0
  oq : st.openQuote = false

structure ElemOK (a : Text) : Prop where
  arg : ArgOK a
  noBar : noTopBar a ⟨0, 0, false⟩ = true

theorem revJoin_ne_nil : ∀ (ras : List Text), ras ≠ [] → (∀ a ∈ ras, a ≠ []) → revJoin ras ≠ []
  | [], h, _ => absurd rfl h
  | [a], _, hne => by simpa [revJoin] using hne a (by simp)
  | a :: b :: rest, _, _ => by simp [revJoin]

theorem revJoin_head : ∀ (ras : List Text) (a : Text) (rest : List Text), ras = a :: rest → a ≠ [] →
    (revJoin ras).head? = a.reverse.head?
  | _, a, [], rfl, _ => by simp [revJoin]
  | _, a, b :: rest, rfl, hne => by
    cases hr : a.reverse with
    | nil => simp at hr; exact absurd hr hne
    | cons c t => simp [revJoin, hr]

theorem listLoop_multi (po : POps) (f : Nat) :
    ∀ (ras : List Text), ras ≠ [] → (∀ a ∈ ras, ElemOK a) → ∀ (st : ListSt), Bnd st →
      listLoop po (parseTerm po (f + 1)) (revJoin ras) st = parseR (parseTerm po (f + 1)) ras st.list
  | [], h, _, _, _ => absurd rfl h
  | [a], _, hok, st, hb => by
    have ha := hok a (by simp)
    have hdp0 : st.dp = bScan ([] : Text).reverse ⟨0, 0, false⟩ := by simp [ListSt.dp, bScan, hb.rd, hb.sq, hb.oq]
    obtain ⟨st', hloop, hseg, hq, hlist, _⟩ := listLoop_struct po (parseTerm po (f + 1)) a ha.arg.closed ha.arg.noBackslash
      ha.arg.noTopComma ha.noBar a.reverse [] st (by simpa using ha.arg.nonempty) (by simp) hb.seg hdp0 (by simp [hb.nq, qCount])
    simp only [revJoin, hloop, parseR]
    unfold listFinish
    have hnE : (trim a).isEmpty = false := by
      rw [ha.arg.trimmed]; cases a with
      | nil => exact absurd rfl ha.arg.nonempty
      | cons c t => rfl
    simp only [hseg, hnE, Bool.false_eq_true, if_false, ha.arg.trimmed, hq, hlist]
    rw [parseTerm_structured po f a ha.arg.trimmed ha.arg.noBackslash ha.arg.noInfix]
    cases checkQuotes a (qCount a ⟨0, 0, false⟩) with
    | ok _ =>
      simp only [Res.bind_ok]
      cases makeTerm po f a (termFlags a).1 (termFlags a).2.1 (termFlags a).2.2 with
      | ok t => simp only [Res.bind_ok]; cases linkFront t false st.list <;> simp [Res.bind, ha.arg.nonempty]
      | fail => simp [Res.bind, ha.arg.nonempty]
      | panic => simp [Res.bind, ha.arg.nonempty]
      | oof => simp [Res.bind, ha.arg.nonempty]
    | fail => simp [Res.bind, ha.arg.nonempty]
    | panic => simp [Res.bind, ha.arg.nonempty]
    | oof => simp [Res.bind, ha.arg.nonempty]
  | a :: b :: rest, _, hok, st, hb => by
    have ha := hok a (by simp)
    have hbo := hok b (by simp)
    have ih := listLoop_multi po f (b :: rest) (by simp) (fun x hx => hok x (by simp [hx]))
    have hdp0 : st.dp = bScan ([] : Text).reverse ⟨0, 0, false⟩ := by simp [ListSt.dp, bScan, hb.rd, hb.sq, hb.oq]
    have hR : revJoin (b :: rest) ≠ [] := revJoin_ne_nil (b :: rest) (by simp) (fun x hx => (hok x (by simp [hx])).arg.nonempty)
    obtain ⟨st1, h1, hs1, hq1, hl1, hv1, hd1⟩ := listLoop_pre po (parseTerm po (f + 1)) a (' ' :: ',' :: revJoin (b :: rest)) (by simp)
      (by simp) ha.arg.closed ha.arg.noBackslash ha.arg.noTopComma ha.noBar a.reverse [] st (by simp) hb.seg hdp0 (by simp [hb.nq, qCount])
    -- after the element the scan is outside everything again
    have hd1' : st1.dp = ⟨0, 0, false⟩ := by
      rw [hd1]
      have := bScan_undoes a false
      rw [ha.arg.closed] at this
      simpa using this
    have hr1 : st1.round = 0 := congrArg Dp.round hd1'
    have hsq1 : st1.square = 0 := congrArg Dp.square hd1'
    have ho1 : st1.openQuote = false := congrArg Dp.oq hd1'
    simp only [revJoin, h1]
    -- the blank
    obtain ⟨st2, h2, hs2, hd2, hq2, hl2, hv2⟩ := listStep_struct po (parseTerm po (f + 1)) ' ' st1 (by simp) (by simp)
    have hd2' : st2.dp = ⟨0, 0, false⟩ := by rw [hd2, hd1']; simp [bStep]
    have hr2 : st2.round = 0 := congrArg Dp.round hd2'
    have hsq2 : st2.square = 0 := congrArg Dp.square hd2'
    have ho2 : st2.openQuote = false := congrArg Dp.oq hd2'
    have hq2' : st2.numQuotes = qCount a ⟨0, 0, false⟩ := by rw [hq2, hq1]; simp
    rw [listLoop]
    simp only [List.head?_cons, show ((some ',' : Option Char) == some '\\') = false from by decide, h2, Res.bind_ok]
    -- the comma: the element is parsed and linked
    rw [listLoop]
    have hescR : ((revJoin (b :: rest)).head? == some '\\') = false := by
      rw [revJoin_head (b :: rest) b rest rfl hbo.arg.nonempty]
      cases hh : b.reverse.head? with
      | none => rfl
      | some x =>
        have : x ∈ b := by
          have : x ∈ b.reverse := by cases hr : b.reverse with
            | nil => rw [hr] at hh; cases hh
            | cons c t => rw [hr] at hh; simp at hh; subst hh; simp
          simpa using this
        have := hbo.arg.noBackslash x this
        simpa using this
    simp only [hescR]
    unfold listStep
    simp only [ho2, hr2, hsq2, Bool.false_eq_true, if_false, Bool.not_false, Bool.and_true,
      show ((',' : Char) == '"') = false from by decide, show ((',' : Char) == ']') = false from by decide,
      show ((',' : Char) == '[') = false from by decide, show ((',' : Char) == ')') = false from by decide,
      show ((',' : Char) == '(') = false from by decide, show ((0 : Int) == 0 && (0 : Int) == 0) = true from rfl,
      Bool.not_true, Bool.false_and, if_true]
    unfold listStepTop listComma
    simp only [Bool.not_false, Bool.and_true, show ((',' : Char) == '"') = false from by decide,
      show ((',' : Char) == ',') = true from by decide, Bool.false_eq_true, if_false, if_true, hs2, hs1,
      trim_ws_prefix [' '] (by intro c hc; simp at hc; subst hc; decide), hq2', hl2, hl1]
    have hnE : (trim a).isEmpty = false := by
      rw [ha.arg.trimmed]; cases a with
      | nil => exact absurd rfl ha.arg.nonempty
      | cons c t => rfl
    have htw : trim (' ' :: a) = a := by
      rw [show (' ' :: a) = [' '] ++ a from rfl, trim_ws_prefix [' '] (by intro c hc; simp at hc; subst hc; decide), ha.arg.trimmed]
    have hnE' : a.isEmpty = false := by rw [← ha.arg.trimmed]; exact hnE
    simp only [htw, hnE', Bool.false_eq_true, if_false]
    rw [show parseR (parseTerm po (f + 1)) (a :: b :: rest) st.list =
      (parseTerm po (f + 1) a).bind fun t => (linkFront t false st.list).bind fun L' => parseR (parseTerm po (f + 1)) (b :: rest) L' from rfl]
    rw [parseTerm_structured po f a ha.arg.trimmed ha.arg.noBackslash ha.arg.noInfix]
    cases checkQuotes a (qCount a ⟨0, 0, false⟩) with
    | fail => simp [Res.bind]
    | panic => simp [Res.bind]
    | oof => simp [Res.bind]
    | ok _ =>
      simp only [Res.bind_ok]
      cases makeTerm po f a (termFlags a).1 (termFlags a).2.1 (termFlags a).2.2 with
      | fail => simp [Res.bind]
      | panic => simp [Res.bind]
      | oof => simp [Res.bind]
      | ok t =>
        simp only [Res.bind_ok]
        cases linkFront t false st.list with
        | fail => simp [Res.bind]
        | panic => simp [Res.bind]
        | oof => simp [Res.bind]
        | ok l =>
          simp only [Res.bind_ok]
          cases hRR : revJoin (b :: rest) with
          | nil => exact absurd hRR hR
          | cons c0 t0 =>
            simp only
            rw [← hRR]
            exact ih _ ⟨rfl, rfl, hr2, hsq2, ho2⟩

theorem joinArgs_snoc : ∀ (as : List Text) (a : Text), as ≠ [] → joinArgs (as ++ [a]) = joinArgs as ++ ',' :: ' ' :: a
  | [], _, h => absurd rfl h
  | [b], a, _ => by simp [joinArgs]
  | b :: c :: rest, a, _ => by
    have ih := joinArgs_snoc (c :: rest) a (by simp)
    simp only [List.cons_append] at ih ⊢
    simp only [joinArgs, ih]
    simp

theorem revJoin_reverse : ∀ (ras : List Text), (joinArgs ras.reverse).reverse = revJoin ras
  | [] => rfl
  | [a] => by simp [joinArgs, revJoin]
  | a :: b :: rest => by
    have ih := revJoin_reverse (b :: rest)
    have hne : (b :: rest).reverse ≠ [] := by simp
    rw [List.reverse_cons, joinArgs_snoc _ a hne, List.reverse_append, ih]
    simp [revJoin]

/-- C20 / C19, A LIST OF SEVERAL ELEMENTS: `parse_linked_list [T1, ..., Tn]` is `parse_term Tn`, ..., `parse_term T1` linked in
    front of the empty list, for structured texts with closed quotes and without a comma or a bar of their own -/
theorem parseLinkedList_multi (po : POps) (f : Nat) (as : List Text) (hne : as ≠ []) (hok : ∀ a ∈ as, ElemOK a) :
    parseLinkedList po (f + 2) ('[' :: joinArgs as ++ [']']) = parseR (parseTerm po (f + 1)) as.reverse Term.empty := by
  have hj : joinArgs as ≠ [] := joinArgs_ne_nil as hne (fun a ha => (hok a ha).arg.nonempty)
  generalize hT : joinArgs as = T at hj
  have hb : ('[' :: T ++ [']']) = '[' :: (T ++ [']']) := rfl
  have htr : trim ('[' :: (T ++ [']'])) = '[' :: (T ++ [']']) := by
    apply trim_of_ends (by simp)
    · intro a ha; simp at ha; subst ha; decide
    · intro a ha
      have : a = ']' := by
        rw [show ('[' :: (T ++ [']'])) = ('[' :: T) ++ [']'] from rfl, List.getLast?_concat] at ha
        simpa using ha.symm
      subst this; decide
  simp only [parseLinkedList, parseLinkedListWith, hb, htr]
  have hlen : ¬ ((('[' :: (T ++ [']'])).length) < 2) := by simp
  have hlen2 : ((('[' :: (T ++ [']'])).length) == 2) = false := by
    cases T with
    | nil => exact absurd rfl hj
    | cons a t => simp
  have hlast : ('[' :: (T ++ [']'])).getLast? = some ']' := by
    rw [show ('[' :: (T ++ [']'])) = ('[' :: T) ++ [']'] from rfl, List.getLast?_concat]
  simp only [hlen, if_false, List.head?_cons, hlast, show ('[' != '[') = false from by decide,
    show (']' != ']') = false from by decide, Bool.false_eq_true, hlen2]
  have hmid : (List.drop 1 ('[' :: (T ++ [']']))).dropLast = T := by simp
  rw [hmid, ← hT]
  have hrev : (joinArgs as).reverse = revJoin as.reverse := by
    have := revJoin_reverse as.reverse
    rwa [List.reverse_reverse] at this
  rw [hrev]
  exact listLoop_multi po f as.reverse (by simpa using hne) (fun a ha => hok a (by simpa using ha)) {} ⟨rfl, rfl, rfl, rfl, rfl⟩

end Suiron.Parse
