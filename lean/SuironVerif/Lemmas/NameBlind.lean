/-
  C11 at the level of terms: UNIFICATION IS BLIND TO THE NAMES OF VARIABLES.

  A variable is `var id name`; the engine compares both (`Term.beq`), binds by id, and prints the name.  `mapN ν` rewrites the
  name of every variable by a map that may depend on the id and is injective for each id — exactly what a consistent
  renaming of the variables of each clause does to the terms of a run, since every clause instance has ids of its own.
  Proved here, for terms without built-in function terms whose ids are at most `n` (`good n`):
    * the engine's term comparison, the substitution set, the alias walk commute with `mapN ν`;
    * `unify` on the renamed operands under the renamed substitution set gives the renamed result — same outcome (`ok` / `fail`
      / `panic` / out of fuel), bindings renamed — and a successful unification keeps all ids at most `n` and brings no
      function term in (`unify_blind`);
    * two maps that agree on the ids up to `n` rename such terms alike (`mapN_congr`).
  (Function terms are left out because `join` prints the names of unbound variables into the atom it builds.)
-/
import SuironVerif.Model.Unify
namespace Suiron.Blind
open Suiron

abbrev NMap := Nat → String → String
def Inj (ν : NMap) : Prop := ∀ i a b, ν i a = ν i b → a = b

mutual
def mapN (ν : NMap) : Term → Term
  | .var i name => .var i (ν i name)
  | .cplx args => .cplx (mapNL ν args)
  | .cons t n c tv => .cons (mapN ν t) (mapN ν n) c tv
  | .func name args => .func name (mapNL ν args)
  | .nil => .nil
  | .anon => .anon
  | .atom s => .atom s
  | .flt x => .flt x
  | .int x => .int x
def mapNL (ν : NMap) : TermList → TermList
  | .nil => .nil
  | .cons h t => .cons (mapN ν h) (mapNL ν t)
end

def mapS (ν : NMap) (σ : Subst) : Subst := σ.map (Option.map (mapN ν))

def Res.map {α β : Type} (f : α → β) : Res α → Res β
  | .ok a => .ok (f a)
  | .fail => .fail
  | .panic => .panic
  | .oof => .oof

mutual
/-- no function term, every variable id at most `n` -/
def good (n : Nat) : Term → Bool
  | .var i _ => decide (i ≤ n)
  | .cplx args => goodL n args
  | .cons t nx _ _ => good n t && good n nx
  | .func _ _ => false
  | _ => true
def goodL (n : Nat) : TermList → Bool
  | .nil => true
  | .cons h t => good n h && goodL n t
end

def goodS (n : Nat) (σ : Subst) : Prop := ∀ i t, σ.get i = some t → good n t = true

mutual
theorem good_mono {n m : Nat} (h : n ≤ m) : ∀ t : Term, good n t = true → good m t = true
  | .var i _, hg => by simp only [good, decide_eq_true_eq] at hg ⊢; omega
  | .cplx args, hg => by simp only [good] at hg ⊢; exact goodL_mono h args hg
  | .cons t nx _ _, hg => by
    simp only [good, Bool.and_eq_true] at hg ⊢
    exact ⟨good_mono h t hg.1, good_mono h nx hg.2⟩
  | .func _ _, hg => by simp [good] at hg
  | .nil, _ => rfl
  | .anon, _ => rfl
  | .atom _, _ => rfl
  | .flt _, _ => rfl
  | .int _, _ => rfl
theorem goodL_mono {n m : Nat} (h : n ≤ m) : ∀ ts : TermList, goodL n ts = true → goodL m ts = true
  | .nil, _ => rfl
  | .cons a as, hg => by
    simp only [goodL, Bool.and_eq_true] at hg ⊢
    exact ⟨good_mono h a hg.1, goodL_mono h as hg.2⟩
end

theorem goodS_mono {n m : Nat} (h : n ≤ m) {σ : Subst} (hs : goodS n σ) : goodS m σ :=
  fun i t ht => good_mono h t (hs i t ht)

mutual
/-- maps that agree on the ids up to `n` rename a term with ids up to `n` alike -/
theorem mapN_congr {ν ν' : NMap} {n : Nat} (h : ∀ i, i ≤ n → ν' i = ν i) : ∀ t : Term, good n t = true → mapN ν' t = mapN ν t
  | .var i name, hg => by
    simp only [good, decide_eq_true_eq] at hg
    simp only [mapN, h i hg]
  | .cplx args, hg => by simp only [good] at hg; simp only [mapN, mapNL_congr h args hg]
  | .cons t nx _ _, hg => by
    simp only [good, Bool.and_eq_true] at hg
    simp only [mapN, mapN_congr h t hg.1, mapN_congr h nx hg.2]
  | .func _ _, hg => by simp [good] at hg
  | .nil, _ => rfl
  | .anon, _ => rfl
  | .atom _, _ => rfl
  | .flt _, _ => rfl
  | .int _, _ => rfl
theorem mapNL_congr {ν ν' : NMap} {n : Nat} (h : ∀ i, i ≤ n → ν' i = ν i) : ∀ ts : TermList, goodL n ts = true → mapNL ν' ts = mapNL ν ts
  | .nil, _ => rfl
  | .cons a as, hg => by
    simp only [goodL, Bool.and_eq_true] at hg
    simp only [mapNL, mapN_congr h a hg.1, mapNL_congr h as hg.2]
end

theorem get_mapS (ν : NMap) (σ : Subst) (i : Nat) : (mapS ν σ).get i = (σ.get i).map (mapN ν) := by
  unfold Subst.get mapS
  simp only [List.getElem?_map]
  cases σ[i]? with
  | none => rfl
  | some o => rfl

theorem mapS_congr {ν ν' : NMap} {n : Nat} (h : ∀ i, i ≤ n → ν' i = ν i) {σ : Subst} (hs : goodS n σ) : mapS ν' σ = mapS ν σ := by
  unfold mapS
  apply List.ext_getElem?
  intro i
  simp only [List.getElem?_map]
  cases hi : σ[i]? with
  | none => rfl
  | some o =>
    cases o with
    | none => rfl
    | some t =>
      have : σ.get i = some t := by simp [Subst.get, hi]
      simp only [Option.map_some, mapN_congr h t (hs i t this)]

theorem bind_mapS (ν : NMap) (σ : Subst) (i : Nat) (t : Term) : mapS ν (σ.bind i t) = (mapS ν σ).bind i (mapN ν t) := by
  unfold Subst.bind mapS
  simp only [List.map_set, List.map_append, List.map_replicate, List.length_map, Option.map_none, Option.map_some]

theorem goodS_bind {n : Nat} {σ : Subst} (hs : goodS n σ) (i : Nat) {t : Term} (ht : good n t = true) : goodS n (σ.bind i t) := by
  intro j u hu
  by_cases hj : j = i
  · subst hj
    rw [Subst.get_bind_self] at hu
    cases hu; exact ht
  · rw [Subst.get_bind_other _ _ _ _ hj] at hu
    exact hs j u hu

theorem goodS_nil (n : Nat) : goodS n [] := by
  intro i t h
  simp [Subst.get_nil] at h

/-! ### the term comparison -/

mutual
theorem beq_mapN (ν : NMap) (hinj : Inj ν) : ∀ (a b : Term), (mapN ν a).beq (mapN ν b) = a.beq b
  | .var i n, .var j m => by
    simp only [mapN, Term.beq]
    by_cases hij : i = j
    · subst hij
      by_cases h : n = m
      · subst h; simp
      · have h2 : ν i n ≠ ν i m := fun e => h (hinj _ _ _ e)
        have e1 : (n == m) = false := by simpa using h
        have e2 : (ν i n == ν i m) = false := by simpa using h2
        rw [e1, e2]
    · have : (i == j) = false := by simpa using hij
      simp [this]
  | .cplx as, .cplx bs => by simp [mapN, Term.beq, beqL_mapN ν hinj as bs]
  | .cons t n c tv, .cons t' n' c' tv' => by
    simp [mapN, Term.beq, beq_mapN ν hinj t t', beq_mapN ν hinj n n']
  | .func f as, .func g bs => by simp [mapN, Term.beq, beqL_mapN ν hinj as bs]
  | .nil, b => by cases b <;> simp [mapN, Term.beq]
  | .anon, b => by cases b <;> simp [mapN, Term.beq]
  | .atom _, b => by cases b <;> simp [mapN, Term.beq]
  | .flt _, b => by cases b <;> simp [mapN, Term.beq]
  | .int _, b => by cases b <;> simp [mapN, Term.beq]
  | .var _ _, .nil => by simp [mapN, Term.beq]
  | .var _ _, .anon => by simp [mapN, Term.beq]
  | .var _ _, .atom _ => by simp [mapN, Term.beq]
  | .var _ _, .flt _ => by simp [mapN, Term.beq]
  | .var _ _, .int _ => by simp [mapN, Term.beq]
  | .var _ _, .cplx _ => by simp [mapN, Term.beq]
  | .var _ _, .cons _ _ _ _ => by simp [mapN, Term.beq]
  | .var _ _, .func _ _ => by simp [mapN, Term.beq]
  | .cplx _, .nil => by simp [mapN, Term.beq]
  | .cplx _, .anon => by simp [mapN, Term.beq]
  | .cplx _, .atom _ => by simp [mapN, Term.beq]
  | .cplx _, .flt _ => by simp [mapN, Term.beq]
  | .cplx _, .int _ => by simp [mapN, Term.beq]
  | .cplx _, .var _ _ => by simp [mapN, Term.beq]
  | .cplx _, .cons _ _ _ _ => by simp [mapN, Term.beq]
  | .cplx _, .func _ _ => by simp [mapN, Term.beq]
  | .cons _ _ _ _, .nil => by simp [mapN, Term.beq]
  | .cons _ _ _ _, .anon => by simp [mapN, Term.beq]
  | .cons _ _ _ _, .atom _ => by simp [mapN, Term.beq]
  | .cons _ _ _ _, .flt _ => by simp [mapN, Term.beq]
  | .cons _ _ _ _, .int _ => by simp [mapN, Term.beq]
  | .cons _ _ _ _, .var _ _ => by simp [mapN, Term.beq]
  | .cons _ _ _ _, .cplx _ => by simp [mapN, Term.beq]
  | .cons _ _ _ _, .func _ _ => by simp [mapN, Term.beq]
  | .func _ _, .nil => by simp [mapN, Term.beq]
  | .func _ _, .anon => by simp [mapN, Term.beq]
  | .func _ _, .atom _ => by simp [mapN, Term.beq]
  | .func _ _, .flt _ => by simp [mapN, Term.beq]
  | .func _ _, .int _ => by simp [mapN, Term.beq]
  | .func _ _, .var _ _ => by simp [mapN, Term.beq]
  | .func _ _, .cplx _ => by simp [mapN, Term.beq]
  | .func _ _, .cons _ _ _ _ => by simp [mapN, Term.beq]
theorem beqL_mapN (ν : NMap) (hinj : Inj ν) : ∀ (as bs : TermList), (mapNL ν as).beq (mapNL ν bs) = as.beq bs
  | .nil, .nil => by simp [mapNL, TermList.beq]
  | .cons a as, .cons b bs => by simp [mapNL, TermList.beq, beq_mapN ν hinj a b, beqL_mapN ν hinj as bs]
  | .nil, .cons _ _ => by simp [mapNL, TermList.beq]
  | .cons _ _, .nil => by simp [mapNL, TermList.beq]
end

theorem isAnon_mapN (ν : NMap) (t : Term) : (mapN ν t).isAnon = t.isAnon := by cases t <;> rfl
theorem isNil_mapN (ν : NMap) (t : Term) : (mapN ν t).isNil = t.isNil := by cases t <;> rfl
theorem isFunc_mapN (ν : NMap) (t : Term) : (mapN ν t).isFunc = t.isFunc := by cases t <;> rfl
theorem length_mapNL (ν : NMap) : ∀ ts : TermList, (mapNL ν ts).length = ts.length
  | .nil => rfl
  | .cons _ t => by simp [mapNL, TermList.length, length_mapNL ν t]

/-! ### the alias walk -/

theorem aliased_mapN (ν : NMap) : ∀ (f : Nat) (σ : Subst) (id : Nat) (t : Term),
    aliased f (mapS ν σ) id (mapN ν t) = aliased f σ id t
  | 0, _, _, _ => rfl
  | f + 1, σ, id, t => by
    cases t with
    | var j name =>
      simp only [mapN, aliased, get_mapS]
      by_cases hj : j = id
      · simp [hj]
      · simp only [hj, if_false]
        cases σ.get j with
        | none => rfl
        | some e => simp only [Option.map_some]; exact aliased_mapN ν f σ id e
    | _ => simp [mapN, aliased]

/-! ### unification -/

theorem Res.map_ok {α β : Type} (g : α → β) (a : α) : Res.map g (.ok a) = .ok (g a) := rfl

/-- what is shown of one call: the renamed call gives the renamed result, and a result keeps the ids and brings no function in -/
def PU (fo : FloatOps) (ν : NMap) (n f : Nat) (a b : Term) (σ : Subst) : Prop :=
  unify fo f (mapN ν a) (mapN ν b) (mapS ν σ) = Res.map (mapS ν) (unify fo f a b σ) ∧
  ∀ σ', unify fo f a b σ = .ok σ' → goodS n σ'
def PA (fo : FloatOps) (ν : NMap) (n f : Nat) (as bs : TermList) (cur acc : Subst) : Prop :=
  unifyArgs fo f (mapNL ν as) (mapNL ν bs) (mapS ν cur) (mapS ν acc) = Res.map (mapS ν) (unifyArgs fo f as bs cur acc) ∧
  ∀ σ', unifyArgs fo f as bs cur acc = .ok σ' → goodS n σ'
def PL (fo : FloatOps) (ν : NMap) (n f : Nat) (a b : Term) (σ : Subst) : Prop :=
  unifyList fo f (mapN ν a) (mapN ν b) (mapS ν σ) = Res.map (mapS ν) (unifyList fo f a b σ) ∧
  ∀ σ', unifyList fo f a b σ = .ok σ' → goodS n σ'

theorem pu_ok {ν : NMap} {n : Nat} {σ : Subst} (hs : goodS n σ) :
    (Res.ok (mapS ν σ) : Res Subst) = Res.map (mapS ν) (.ok σ) ∧ ∀ σ', (Res.ok σ : Res Subst) = .ok σ' → goodS n σ' :=
  ⟨rfl, fun σ' h => by cases h; exact hs⟩
theorem pu_fail {ν : NMap} {n : Nat} :
    (Res.fail : Res Subst) = Res.map (mapS ν) .fail ∧ ∀ σ', (Res.fail : Res Subst) = .ok σ' → goodS n σ' :=
  ⟨rfl, fun σ' h => by cases h⟩
theorem pu_panic {ν : NMap} {n : Nat} :
    (Res.panic : Res Subst) = Res.map (mapS ν) .panic ∧ ∀ σ', (Res.panic : Res Subst) = .ok σ' → goodS n σ' :=
  ⟨rfl, fun σ' h => by cases h⟩

theorem unify_blind_all (fo : FloatOps) (ν : NMap) (hinj : Inj ν) (n : Nat) : ∀ f : Nat,
    (∀ a b σ, good n a = true → good n b = true → goodS n σ → PU fo ν n f a b σ) ∧
    (∀ as bs cur acc, goodL n as = true → goodL n bs = true → goodS n cur → goodS n acc → PA fo ν n f as bs cur acc) ∧
    (∀ a b σ, good n a = true → good n b = true → goodS n σ → PL fo ν n f a b σ) := by
  intro f
  induction f with
  | zero =>
    refine ⟨fun a b σ _ _ _ => ⟨rfl, fun σ' h => by simp [unify] at h⟩, fun as bs cur acc _ _ _ _ => ⟨rfl, fun σ' h => by simp [unifyArgs] at h⟩,
      fun a b σ _ _ _ => ⟨rfl, fun σ' h => by simp [unifyList] at h⟩⟩
  | succ f ih =>
    obtain ⟨ihU, ihA, ihL⟩ := ih
    refine ⟨?_, ?_, ?_⟩
    · -- unify
      intro a b σ ha hb hs
      unfold PU
      simp only [unify, beq_mapN ν hinj, isAnon_mapN]
      by_cases h1 : a.beq b = true
      · simp only [h1, if_true]; exact pu_ok hs
      simp only [h1, if_false, Bool.false_eq_true]
      by_cases h2 : b.isAnon = true
      · simp only [h2, if_true]; exact pu_ok hs
      simp only [h2, if_false, Bool.false_eq_true]
      have swap : PU fo ν n f b a σ := ihU b a σ hb ha hs
      unfold PU at swap
      cases a with
      | anon => simp only [mapN]; exact pu_ok hs
      | nil => simp only [mapN]; exact pu_fail
      | func name args => simp [good] at ha
      | atom s =>
        cases b with
        | atom s2 => simp only [mapN]; by_cases e : s = s2 <;> simp only [e, if_true, if_false, Bool.false_eq_true] <;> first | exact pu_ok hs | exact pu_fail
        | var j m => simpa only [mapN] using swap
        | func g bs => simp [good] at hb
        | _ => simp only [mapN]; exact pu_fail
      | flt x =>
        cases b with
        | flt y => simp only [mapN]; by_cases e : fEq x y = true <;> simp only [e, if_true, if_false, Bool.false_eq_true] <;> first | exact pu_ok hs | exact pu_fail
        | var j m => simpa only [mapN] using swap
        | func g bs => simp [good] at hb
        | _ => simp only [mapN]; exact pu_fail
      | int x =>
        cases b with
        | int y => simp only [mapN]; by_cases e : x = y <;> simp only [e, if_true, if_false, Bool.false_eq_true] <;> first | exact pu_ok hs | exact pu_fail
        | var j m => simpa only [mapN] using swap
        | func g bs => simp [good] at hb
        | _ => simp only [mapN]; exact pu_fail
      | cplx as =>
        cases b with
        | cplx bs =>
          simp only [mapN, length_mapNL]
          by_cases e : as.length = bs.length
          · simp only [ne_eq, e, not_true_eq_false, if_false]
            have := ihA as bs σ [] (by simpa [good] using ha) (by simpa [good] using hb) hs (goodS_nil n)
            unfold PA at this
            simpa [mapS] using this
          · simp only [ne_eq, e, not_false_eq_true, if_true]; exact pu_fail
        | var j m => simpa only [mapN] using swap
        | func g bs => simp [good] at hb
        | _ => simp only [mapN]; exact pu_fail
      | cons t nx c tv =>
        cases b with
        | cons t2 n2 c2 tv2 =>
          have := ihL (.cons t nx c tv) (.cons t2 n2 c2 tv2) σ ha hb hs
          unfold PL at this
          simpa only [mapN] using this
        | var j m => simpa only [mapN] using swap
        | func g bs => simp [good] at hb
        | _ => simp only [mapN]; exact pu_fail
      | var id name =>
        simp only [mapN]
        by_cases h0 : id = 0
        · simp only [h0, if_true]; exact pu_panic
        simp only [h0, if_false, Bool.false_eq_true, isFunc_mapN]
        have hbf : b.isFunc = false := by cases b <;> first | rfl | (simp [good] at hb)
        simp only [hbf, Bool.false_eq_true, if_false, get_mapS]
        cases hg : σ.get id with
        | some t =>
          simp only [Option.map_some]
          exact ihU t b σ (hs id t hg) hb hs
        | none =>
          simp only [Option.map_none, aliased_mapN]
          cases aliased f σ id b with
          | ok al =>
            cases al with
            | true => simp only [Res.bind_ok, if_true]; exact pu_ok hs
            | false =>
              simp only [Res.bind_ok, Bool.false_eq_true, if_false, ← bind_mapS]
              exact pu_ok (goodS_bind hs id hb)
          | fail => exact ⟨rfl, fun σ' h => by cases h⟩
          | panic => exact ⟨rfl, fun σ' h => by cases h⟩
          | oof => exact ⟨rfl, fun σ' h => by cases h⟩
    · -- unifyArgs
      intro as bs cur acc has hbs hc hacc
      unfold PA
      cases as with
      | nil =>
        cases bs with
        | nil => simp only [mapNL, unifyArgs]; exact pu_ok hacc
        | cons b bs => simp only [mapNL, unifyArgs]; exact pu_panic
      | cons a as =>
        cases bs with
        | nil => simp only [mapNL, unifyArgs]; exact pu_panic
        | cons b bs =>
          simp only [goodL, Bool.and_eq_true] at has hbs
          simp only [mapNL, unifyArgs, isAnon_mapN]
          by_cases h1 : a.isAnon = true
          · simp only [h1, if_true]; exact ihA as bs cur acc has.2 hbs.2 hc hacc
          simp only [h1, if_false, Bool.false_eq_true]
          by_cases h2 : b.isAnon = true
          · simp only [h2, if_true]; exact ihA as bs cur acc has.2 hbs.2 hc hacc
          simp only [h2, if_false, Bool.false_eq_true]
          obtain ⟨e1, g1⟩ := ihU a b cur has.1 hbs.1 hc
          rw [e1]
          cases hu : unify fo f a b cur with
          | ok σ' =>
            simp only [Res.map, Res.bind_ok]
            exact ihA as bs σ' σ' has.2 hbs.2 (g1 σ' hu) (g1 σ' hu)
          | fail => exact ⟨rfl, fun σ' h => by cases h⟩
          | panic => exact ⟨rfl, fun σ' h => by cases h⟩
          | oof => exact ⟨rfl, fun σ' h => by cases h⟩
    · -- unifyList
      intro a b σ ha hb hs
      unfold PL
      simp only [unifyList, isNil_mapN]
      by_cases h1 : (a.isNil || b.isNil) = true
      · simp only [h1, if_true]; exact pu_fail
      simp only [h1, if_false, Bool.false_eq_true]
      cases a with
      | cons tt tn tc ttv =>
        cases b with
        | cons ot on oc otv =>
          simp only [good, Bool.and_eq_true] at ha hb
          simp only [mapN, isAnon_mapN, isNil_mapN]
          by_cases c1 : (ttv && otv) = true
          · simp only [c1, if_true]
            by_cases c2 : ot.isAnon = true
            · simp only [c2, if_true]; exact pu_ok hs
            simp only [c2, if_false, Bool.false_eq_true]
            by_cases c3 : tt.isAnon = true
            · simp only [c3, if_true]; exact pu_ok hs
            simp only [c3, if_false, Bool.false_eq_true]
            exact ihU tt ot σ ha.1 hb.1 hs
          simp only [c1, if_false, Bool.false_eq_true]
          by_cases c4 : ttv = true
          · simp only [c4, if_true]
            have := ihU tt (.cons ot on oc otv) σ ha.1 (by simp [good, hb.1, hb.2]) hs
            unfold PU at this
            simpa only [mapN] using this
          have c4' : ttv = false := by simpa using c4
          subst c4'
          simp only [Bool.false_eq_true, if_false]
          by_cases c5 : otv = true
          · simp only [c5, if_true]
            have := ihU ot (.cons tt tn tc false) σ hb.1 (by simp [good, ha.1, ha.2]) hs
            unfold PU at this
            simpa only [mapN] using this
          simp only [c5, if_false, Bool.false_eq_true]
          by_cases c6 : (tt.isNil && ot.isNil) = true
          · simp only [c6, if_true]; exact pu_ok hs
          simp only [c6, if_false, Bool.false_eq_true]
          obtain ⟨e1, g1⟩ := ihU tt ot σ ha.1 hb.1 hs
          rw [e1]
          cases hu : unify fo f tt ot σ with
          | ok σ' =>
            simp only [Res.map, Res.bind_ok]
            exact ihL tn on σ' ha.2 hb.2 (g1 σ' hu)
          | fail => exact ⟨rfl, fun σ' h => by cases h⟩
          | panic => exact ⟨rfl, fun σ' h => by cases h⟩
          | oof => exact ⟨rfl, fun σ' h => by cases h⟩
        | _ => simp only [mapN]; exact pu_panic
      | _ => cases b <;> (simp only [mapN]; exact pu_panic)

/-- UNIFICATION IS BLIND TO NAMES: renaming the variables of both operands and of the substitution set (by a map that is
    injective for each id) renames the result and changes nothing else; a result has no id above `n` and no function term -/
theorem unify_blind (fo : FloatOps) (ν : NMap) (hinj : Inj ν) (n f : Nat) (a b : Term) (σ : Subst)
    (ha : good n a = true) (hb : good n b = true) (hs : goodS n σ) :
    unify fo f (mapN ν a) (mapN ν b) (mapS ν σ) = Res.map (mapS ν) (unify fo f a b σ) ∧
    ∀ σ', unify fo f a b σ = .ok σ' → goodS n σ' :=
  (unify_blind_all fo ν hinj n f).1 a b σ ha hb hs

end Suiron.Blind
