/-
  C11, the knowledge bases: CONSISTENTLY RENAMING THE VARIABLES OF EACH RULE gives a knowledge base that hands out the same
  clauses up to the names of the fresh variables (`KBRel` of `Lemmas/NameBlindMachine.lean`).

  `KBRen kb kb'`: the same predicates in the same order, the same number of rules for each, and rule for rule the second is
  the first with its variable names rewritten by an injective map of its own (`ρ` may differ from rule to rule: rules may
  reuse each other's names, or the query's).  `renameRule` — renaming apart from the counter — commutes with such a map
  (`renameRule_comm`): the ids handed out depend on the order of first occurrence only.  What it hands out has ids above the
  old counter and at most the new one (`rename_rng`), so the map in use for the ids up to the counter extends to the fresh
  ids by `ρ` (`kbRel_of_kbRen`).
-/
import SuironVerif.Lemmas.NameBlindMachine
namespace Suiron.Blind
open Suiron Suiron.Spec

def SInj (ρ : String → String) : Prop := ∀ a b, ρ a = ρ b → a = b
/-- the same map of names for every id -/
def cst (ρ : String → String) : NMap := fun _ => ρ

def mapMap (ρ : String → String) : VarMap → VarMap
  | [] => []
  | (k, v) :: rest => (ρ k, v) :: mapMap ρ rest
def mapSt (ρ : String → String) (st : RenSt) : RenSt := ⟨mapMap ρ st.map, st.counter⟩

theorem get_mapMap (ρ : String → String) (hρ : SInj ρ) : ∀ (m : VarMap) (name : String), (mapMap ρ m).get (ρ name) = m.get name
  | [], _ => rfl
  | (k, v) :: rest, name => by
    simp only [mapMap, VarMap.get]
    by_cases h : k = name
    · simp [h]
    · have : ρ k ≠ ρ name := fun e => h (hρ _ _ e)
      simp [h, this, get_mapMap ρ hρ rest name]

mutual
theorem renameTerm_comm (ρ : String → String) (hρ : SInj ρ) : ∀ (t : Term) (st : RenSt),
    renameTerm (mapN (cst ρ) t) (mapSt ρ st) = (mapN (cst ρ) (renameTerm t st).1, mapSt ρ (renameTerm t st).2)
  | .var i name, st => by
    simp only [mapN, cst, renameTerm, mapSt, get_mapMap ρ hρ]
    cases st.map.get name <;> simp [mapN, mapMap, cst]
  | .cplx args, st => by simp [mapN, renameTerm, renameTerms_comm ρ hρ args st]
  | .cons t n c tv, st => by
    simp [mapN, renameTerm, renameTerm_comm ρ hρ t st, renameTerm_comm ρ hρ n _]
  | .func name args, st => by simp [mapN, renameTerm, renameTerms_comm ρ hρ args st]
  | .nil, st => by simp [mapN, renameTerm]
  | .anon, st => by simp [mapN, renameTerm]
  | .atom _, st => by simp [mapN, renameTerm]
  | .flt _, st => by simp [mapN, renameTerm]
  | .int _, st => by simp [mapN, renameTerm]
theorem renameTerms_comm (ρ : String → String) (hρ : SInj ρ) : ∀ (ts : TermList) (st : RenSt),
    renameTerms (mapNL (cst ρ) ts) (mapSt ρ st) = (mapNL (cst ρ) (renameTerms ts st).1, mapSt ρ (renameTerms ts st).2)
  | .nil, st => by simp [mapNL, renameTerms]
  | .cons h t, st => by
    simp [mapNL, renameTerms, renameTerm_comm ρ hρ h st, renameTerms_comm ρ hρ t _]
end

def mapGS (ρ : String → String) (r : Goal × RenSt) : Goal × RenSt := (mapG (cst ρ) r.1, mapSt ρ r.2)
def mapGLS (ρ : String → String) (r : GoalList × RenSt) : GoalList × RenSt := (mapGL (cst ρ) r.1, mapSt ρ r.2)

mutual
theorem renameGoal_comm (ρ : String → String) (hρ : SInj ρ) : ∀ (g : Goal) (st : RenSt),
    renameGoal (mapG (cst ρ) g) (mapSt ρ st) = Res.map (mapGS ρ) (renameGoal g st)
  | .call t, st => by
    cases t with
    | cplx args => simp [mapG, mapN, renameGoal, renameTerms_comm ρ hρ args st, Res.map, mapGS]
    | _ => simp [mapG, mapN, renameGoal, Res.map]
  | .bip name none, st => by simp [mapG, renameGoal, Res.map, mapGS]
  | .bip name (some args), st => by simp [mapG, renameGoal, renameTerms_comm ρ hρ args st, Res.map, mapGS]
  | .and gs, st => by
    simp only [mapG, renameGoal, renameGoals_comm ρ hρ gs st]
    cases renameGoals gs st <;> simp [Res.map, Res.bind, mapGS, mapGLS, mapG]
  | .or gs, st => by
    simp only [mapG, renameGoal, renameGoals_comm ρ hρ gs st]
    cases renameGoals gs st <;> simp [Res.map, Res.bind, mapGS, mapGLS, mapG]
  | .time gs, st => by
    simp only [mapG, renameGoal, renameGoals_comm ρ hρ gs st]
    cases renameGoals gs st <;> simp [Res.map, Res.bind, mapGS, mapGLS, mapG]
  | .not gs, st => by
    simp only [mapG, renameGoal, renameGoals_comm ρ hρ gs st]
    cases renameGoals gs st <;> simp [Res.map, Res.bind, mapGS, mapGLS, mapG]
  | .nil, st => by simp [mapG, renameGoal, Res.map]
theorem renameGoals_comm (ρ : String → String) (hρ : SInj ρ) : ∀ (gs : GoalList) (st : RenSt),
    renameGoals (mapGL (cst ρ) gs) (mapSt ρ st) = Res.map (mapGLS ρ) (renameGoals gs st)
  | .nil, st => by simp [mapGL, renameGoals, Res.map, mapGLS]
  | .cons g gs, st => by
    simp only [mapGL, renameGoals, renameGoal_comm ρ hρ g st]
    cases h1 : renameGoal g st with
    | ok r1 =>
      simp only [Res.map, Res.bind_ok, mapGS, renameGoals_comm ρ hρ gs r1.2]
      cases renameGoals gs r1.2 <;> simp [Res.map, Res.bind, mapGLS, mapGL]
    | fail => simp [Res.map, Res.bind]
    | panic => simp [Res.map, Res.bind]
    | oof => simp [Res.map, Res.bind]
end

def mapRule (ρ : String → String) (r : Rule) : Rule := ⟨mapN (cst ρ) r.head, mapG (cst ρ) r.body⟩

theorem renameRule_comm (ρ : String → String) (hρ : SInj ρ) (r : Rule) (st : RenSt) :
    renameRule (mapRule ρ r) (mapSt ρ st) = Res.map (fun x => (mapRule ρ x.1, mapSt ρ x.2)) (renameRule r st) := by
  obtain ⟨head, body⟩ := r
  simp only [renameRule, mapRule, renameTerm_comm ρ hρ head st]
  cases body with
  | nil => simp [mapG, Res.map, mapRule]
  | call t => simp [mapG, renameTerm_comm ρ hρ t _, Res.map, mapRule]
  | bip name args =>
    cases args with
    | none => simp [mapG, Res.map, mapRule]
    | some as => simp [mapG, renameTerms_comm ρ hρ as _, Res.map, mapRule]
  | and gs =>
    simp only [mapG, renameGoals_comm ρ hρ gs _]
    cases renameGoals gs (renameTerm head st).2 <;> simp [Res.map, Res.bind, mapGLS, mapRule, mapG]
  | or gs =>
    simp only [mapG, renameGoals_comm ρ hρ gs _]
    cases renameGoals gs (renameTerm head st).2 <;> simp [Res.map, Res.bind, mapGLS, mapRule, mapG]
  | time gs =>
    simp only [mapG, renameGoals_comm ρ hρ gs _]
    cases renameGoals gs (renameTerm head st).2 <;> simp [Res.map, Res.bind, mapGLS, mapRule, mapG]
  | not gs =>
    simp only [mapG, renameGoals_comm ρ hρ gs _]
    cases renameGoals gs (renameTerm head st).2 <;> simp [Res.map, Res.bind, mapGLS, mapRule, mapG]

/-! ### what renaming apart hands out: ids above the old counter, at most the new one -/

mutual
/-- no function term, every id in `(lo, hi]` -/
def rng (lo hi : Nat) : Term → Bool
  | .var i _ => decide (lo < i) && decide (i ≤ hi)
  | .cplx args => rngL lo hi args
  | .cons t n _ _ => rng lo hi t && rng lo hi n
  | .func _ _ => false
  | _ => true
def rngL (lo hi : Nat) : TermList → Bool
  | .nil => true
  | .cons h t => rng lo hi h && rngL lo hi t
end

mutual
/-- no function term -/
def ffree : Term → Bool
  | .cplx args => ffreeL args
  | .cons t n _ _ => ffree t && ffree n
  | .func _ _ => false
  | _ => true
def ffreeL : TermList → Bool
  | .nil => true
  | .cons h t => ffree h && ffreeL t
end

mutual
theorem rng_mono {lo hi hi' : Nat} (h : hi ≤ hi') : ∀ t : Term, rng lo hi t = true → rng lo hi' t = true
  | .var i _, hg => by simp only [rng, Bool.and_eq_true, decide_eq_true_eq] at hg ⊢; omega
  | .cplx args, hg => by simp only [rng] at hg ⊢; exact rngL_mono h args hg
  | .cons t nx _ _, hg => by
    simp only [rng, Bool.and_eq_true] at hg ⊢
    exact ⟨rng_mono h t hg.1, rng_mono h nx hg.2⟩
  | .func _ _, hg => by simp [rng] at hg
  | .nil, _ => rfl
  | .anon, _ => rfl
  | .atom _, _ => rfl
  | .flt _, _ => rfl
  | .int _, _ => rfl
theorem rngL_mono {lo hi hi' : Nat} (h : hi ≤ hi') : ∀ ts : TermList, rngL lo hi ts = true → rngL lo hi' ts = true
  | .nil, _ => rfl
  | .cons a as, hg => by
    simp only [rngL, Bool.and_eq_true] at hg ⊢
    exact ⟨rng_mono h a hg.1, rngL_mono h as hg.2⟩
end

mutual
theorem good_of_rng {lo hi : Nat} : ∀ t : Term, rng lo hi t = true → good hi t = true
  | .var i _, hg => by simp only [rng, Bool.and_eq_true, decide_eq_true_eq] at hg; simp only [good, decide_eq_true_eq]; omega
  | .cplx args, hg => by simp only [rng] at hg; simp only [good]; exact goodL_of_rngL args hg
  | .cons t nx _ _, hg => by
    simp only [rng, Bool.and_eq_true] at hg
    simp only [good, Bool.and_eq_true]
    exact ⟨good_of_rng t hg.1, good_of_rng nx hg.2⟩
  | .func _ _, hg => by simp [rng] at hg
  | .nil, _ => rfl
  | .anon, _ => rfl
  | .atom _, _ => rfl
  | .flt _, _ => rfl
  | .int _, _ => rfl
theorem goodL_of_rngL {lo hi : Nat} : ∀ ts : TermList, rngL lo hi ts = true → goodL hi ts = true
  | .nil, _ => rfl
  | .cons a as, hg => by
    simp only [rngL, Bool.and_eq_true] at hg
    simp only [goodL, Bool.and_eq_true]
    exact ⟨good_of_rng a hg.1, goodL_of_rngL as hg.2⟩
end

mutual
/-- a map that is `ρ` on the ids above `lo` renames a term with ids above `lo` as `ρ` does -/
theorem mapN_above {ν : NMap} {ρ : String → String} {lo hi : Nat} (h : ∀ i, lo < i → ν i = ρ) :
    ∀ t : Term, rng lo hi t = true → mapN ν t = mapN (cst ρ) t
  | .var i name, hg => by
    simp only [rng, Bool.and_eq_true, decide_eq_true_eq] at hg
    simp only [mapN, cst, h i hg.1]
  | .cplx args, hg => by simp only [rng] at hg; simp only [mapN, mapNL_above h args hg]
  | .cons t nx _ _, hg => by
    simp only [rng, Bool.and_eq_true] at hg
    simp only [mapN, mapN_above h t hg.1, mapN_above h nx hg.2]
  | .func _ _, hg => by simp [rng] at hg
  | .nil, _ => rfl
  | .anon, _ => rfl
  | .atom _, _ => rfl
  | .flt _, _ => rfl
  | .int _, _ => rfl
theorem mapNL_above {ν : NMap} {ρ : String → String} {lo hi : Nat} (h : ∀ i, lo < i → ν i = ρ) :
    ∀ ts : TermList, rngL lo hi ts = true → mapNL ν ts = mapNL (cst ρ) ts
  | .nil, _ => rfl
  | .cons a as, hg => by
    simp only [rngL, Bool.and_eq_true] at hg
    simp only [mapNL, mapN_above h a hg.1, mapNL_above h as hg.2]
end

/-- every id the map of the clause has handed out lies in `(lo, counter]` -/
structure MapB (lo : Nat) (st : RenSt) : Prop where
  bnd : ∀ n i, st.map.get n = some i → lo < i ∧ i ≤ st.counter
  le : lo ≤ st.counter

mutual
theorem rename_rng (lo : Nat) : ∀ (t : Term) (st : RenSt), ffree t = true → MapB lo st →
    rng lo (renameTerm t st).2.counter (renameTerm t st).1 = true ∧ MapB lo (renameTerm t st).2 ∧ st.counter ≤ (renameTerm t st).2.counter
  | .var i name, st, _, hm => by
    simp only [renameTerm]
    cases hg : st.map.get name with
    | some id =>
      have := hm.bnd name id hg
      simp only [rng, Bool.and_eq_true, decide_eq_true_eq]
      exact ⟨⟨this.1, this.2⟩, hm, Nat.le_refl _⟩
    | none =>
      simp only [rng, Bool.and_eq_true, decide_eq_true_eq]
      refine ⟨⟨by have := hm.le; omega, Nat.le_refl _⟩, ⟨?_, by have := hm.le; show lo ≤ st.counter + 1; omega⟩, by show st.counter ≤ st.counter + 1; omega⟩
      intro n i hn
      show lo < i ∧ i ≤ st.counter + 1
      simp only [VarMap.get] at hn
      by_cases e : name = n
      · simp only [e, if_true] at hn
        cases hn
        have := hm.le
        exact ⟨by omega, Nat.le_refl _⟩
      · simp only [e, if_false] at hn
        have := hm.bnd n i hn
        exact ⟨this.1, by omega⟩
  | .cplx args, st, hf, hm => by
    simp only [ffree] at hf
    simp only [renameTerm, rng]
    exact renameL_rng lo args st hf hm
  | .cons t n c tv, st, hf, hm => by
    simp only [ffree, Bool.and_eq_true] at hf
    obtain ⟨r1, m1, c1⟩ := rename_rng lo t st hf.1 hm
    obtain ⟨r2, m2, c2⟩ := rename_rng lo n (renameTerm t st).2 hf.2 m1
    simp only [renameTerm, rng, Bool.and_eq_true]
    exact ⟨⟨rng_mono c2 _ r1, r2⟩, m2, Nat.le_trans c1 c2⟩
  | .func _ _, _, hf, _ => by simp [ffree] at hf
  | .nil, st, _, hm => ⟨rfl, hm, Nat.le_refl _⟩
  | .anon, st, _, hm => ⟨rfl, hm, Nat.le_refl _⟩
  | .atom _, st, _, hm => ⟨rfl, hm, Nat.le_refl _⟩
  | .flt _, st, _, hm => ⟨rfl, hm, Nat.le_refl _⟩
  | .int _, st, _, hm => ⟨rfl, hm, Nat.le_refl _⟩
theorem renameL_rng (lo : Nat) : ∀ (ts : TermList) (st : RenSt), ffreeL ts = true → MapB lo st →
    rngL lo (renameTerms ts st).2.counter (renameTerms ts st).1 = true ∧ MapB lo (renameTerms ts st).2 ∧ st.counter ≤ (renameTerms ts st).2.counter
  | .nil, st, _, hm => ⟨rfl, hm, Nat.le_refl _⟩
  | .cons h t, st, hf, hm => by
    simp only [ffreeL, Bool.and_eq_true] at hf
    obtain ⟨r1, m1, c1⟩ := rename_rng lo h st hf.1 hm
    obtain ⟨r2, m2, c2⟩ := renameL_rng lo t (renameTerm h st).2 hf.2 m1
    simp only [renameTerms, rngL, Bool.and_eq_true]
    exact ⟨⟨rng_mono c2 _ r1, r2⟩, m2, Nat.le_trans c1 c2⟩
end

theorem callOK_rename (t : Term) (st : RenSt) (h : callOK t = true) : callOK (renameTerm t st).1 = true := by
  cases t with
  | cplx args =>
    cases args with
    | nil => simp [callOK] at h
    | cons f rest =>
      cases f with
      | atom s => simp [renameTerm, renameTerms, callOK]
      | _ => simp [callOK] at h
  | _ => simp [callOK] at h

theorem callOK_mapN (ν : NMap) (t : Term) (h : callOK t = true) : callOK (mapN ν t) = true := by
  cases t with
  | cplx args =>
    cases args with
    | nil => simp [callOK] at h
    | cons f rest =>
      cases f with
      | atom s => simp [mapN, mapNL, callOK]
      | _ => simp [callOK] at h
  | _ => simp [callOK] at h

def ffreeArgs : Option TermList → Bool
  | none => true
  | some as => ffreeL as
def rngArgs (lo hi : Nat) : Option TermList → Bool
  | none => true
  | some as => rngL lo hi as

mutual
/-- goals of the fragment before renaming: no built-in predicate but the cut, `fail`, `nl` and `unify`, calls with atom functors,
    no function term -/
def ffreeG : Goal → Bool
  | .call t => ffree t && callOK t
  | .bip name args => bipAllowed name && ffreeArgs args
  | .and gs => ffreeGL gs
  | .or gs => ffreeGL gs
  | .time gs => ffreeGL gs
  | .not gs => ffreeGL gs
  | .nil => true
def ffreeGL : GoalList → Bool
  | .nil => true
  | .cons g gs => ffreeG g && ffreeGL gs
end

mutual
def rngG (lo hi : Nat) : Goal → Bool
  | .call t => rng lo hi t && callOK t
  | .bip name args => bipAllowed name && rngArgs lo hi args
  | .and gs => rngGL lo hi gs
  | .or gs => rngGL lo hi gs
  | .time gs => rngGL lo hi gs
  | .not gs => rngGL lo hi gs
  | .nil => true
def rngGL (lo hi : Nat) : GoalList → Bool
  | .nil => true
  | .cons g gs => rngG lo hi g && rngGL lo hi gs
end

mutual
theorem rngG_mono {lo hi hi' : Nat} (h : hi ≤ hi') : ∀ g : Goal, rngG lo hi g = true → rngG lo hi' g = true
  | .call t, hg => by
    simp only [rngG, Bool.and_eq_true] at hg ⊢
    exact ⟨rng_mono h t hg.1, hg.2⟩
  | .bip _ none, hg => by simpa only [rngG, rngArgs] using hg
  | .bip _ (some as), hg => by
    simp only [rngG, rngArgs, Bool.and_eq_true] at hg ⊢
    exact ⟨hg.1, rngL_mono h as hg.2⟩
  | .and gs, hg => by simp only [rngG] at hg ⊢; exact rngGL_mono h gs hg
  | .or gs, hg => by simp only [rngG] at hg ⊢; exact rngGL_mono h gs hg
  | .time gs, hg => by simp only [rngG] at hg ⊢; exact rngGL_mono h gs hg
  | .not gs, hg => by simp only [rngG] at hg ⊢; exact rngGL_mono h gs hg
  | .nil, _ => rfl
theorem rngGL_mono {lo hi hi' : Nat} (h : hi ≤ hi') : ∀ gs : GoalList, rngGL lo hi gs = true → rngGL lo hi' gs = true
  | .nil, _ => rfl
  | .cons g gs, hg => by
    simp only [rngGL, Bool.and_eq_true] at hg ⊢
    exact ⟨rngG_mono h g hg.1, rngGL_mono h gs hg.2⟩
end

mutual
theorem goodG_of_rngG {lo hi : Nat} : ∀ g : Goal, rngG lo hi g = true → goodG hi g = true
  | .call t, hg => by
    simp only [rngG, Bool.and_eq_true] at hg
    simp only [goodG, Bool.and_eq_true]
    exact ⟨good_of_rng t hg.1, hg.2⟩
  | .bip _ none, hg => by simpa only [rngG, goodG, rngArgs, goodArgs] using hg
  | .bip _ (some as), hg => by
    simp only [rngG, rngArgs, Bool.and_eq_true] at hg
    simp only [goodG, goodArgs, Bool.and_eq_true]
    exact ⟨hg.1, goodL_of_rngL as hg.2⟩
  | .and gs, hg => by simp only [rngG] at hg; simp only [goodG]; exact goodGL_of_rngGL gs hg
  | .or gs, hg => by simp only [rngG] at hg; simp only [goodG]; exact goodGL_of_rngGL gs hg
  | .time gs, hg => by simp only [rngG] at hg; simp only [goodG]; exact goodGL_of_rngGL gs hg
  | .not gs, hg => by simp only [rngG] at hg; simp only [goodG]; exact goodGL_of_rngGL gs hg
  | .nil, _ => rfl
theorem goodGL_of_rngGL {lo hi : Nat} : ∀ gs : GoalList, rngGL lo hi gs = true → goodGL hi gs = true
  | .nil, _ => rfl
  | .cons g gs, hg => by
    simp only [rngGL, Bool.and_eq_true] at hg
    simp only [goodGL, Bool.and_eq_true]
    exact ⟨goodG_of_rngG g hg.1, goodGL_of_rngGL gs hg.2⟩
end

mutual
theorem mapG_above {ν : NMap} {ρ : String → String} {lo hi : Nat} (h : ∀ i, lo < i → ν i = ρ) :
    ∀ g : Goal, rngG lo hi g = true → mapG ν g = mapG (cst ρ) g
  | .call t, hg => by
    simp only [rngG, Bool.and_eq_true] at hg
    simp only [mapG, mapN_above h t hg.1]
  | .bip _ none, _ => rfl
  | .bip _ (some as), hg => by
    simp only [rngG, rngArgs, Bool.and_eq_true] at hg
    simp only [mapG, mapNL_above h as hg.2]
  | .and gs, hg => by simp only [rngG] at hg; simp only [mapG, mapGL_above h gs hg]
  | .or gs, hg => by simp only [rngG] at hg; simp only [mapG, mapGL_above h gs hg]
  | .time gs, hg => by simp only [rngG] at hg; simp only [mapG, mapGL_above h gs hg]
  | .not gs, hg => by simp only [rngG] at hg; simp only [mapG, mapGL_above h gs hg]
  | .nil, _ => rfl
theorem mapGL_above {ν : NMap} {ρ : String → String} {lo hi : Nat} (h : ∀ i, lo < i → ν i = ρ) :
    ∀ gs : GoalList, rngGL lo hi gs = true → mapGL ν gs = mapGL (cst ρ) gs
  | .nil, _ => rfl
  | .cons g gs, hg => by
    simp only [rngGL, Bool.and_eq_true] at hg
    simp only [mapGL, mapG_above h g hg.1, mapGL_above h gs hg.2]
end

mutual
theorem renameGoal_rng (lo : Nat) : ∀ (g : Goal) (st : RenSt), ffreeG g = true → MapB lo st → ∀ r, renameGoal g st = .ok r →
    rngG lo r.2.counter r.1 = true ∧ MapB lo r.2 ∧ st.counter ≤ r.2.counter
  | .call t, st, hf, hm, r, hr => by
    simp only [ffreeG, Bool.and_eq_true] at hf
    cases t with
    | cplx args =>
      simp only [renameGoal, Res.ok.injEq] at hr
      subst hr
      have h1 := renameL_rng lo args st (by simpa [ffree] using hf.1) hm
      have h2 := callOK_rename (.cplx args) st hf.2
      simp only [renameTerm] at h2
      simp only [rngG, rng, Bool.and_eq_true]
      exact ⟨⟨h1.1, h2⟩, h1.2.1, h1.2.2⟩
    | _ => simp [callOK] at hf
  | .bip name none, st, hf, hm, r, hr => by
    simp only [renameGoal, Res.ok.injEq] at hr
    subst hr
    exact ⟨by simpa only [ffreeG, rngG, ffreeArgs, rngArgs] using hf, hm, Nat.le_refl _⟩
  | .bip name (some as), st, hf, hm, r, hr => by
    simp only [ffreeG, ffreeArgs, Bool.and_eq_true] at hf
    simp only [renameGoal, Res.ok.injEq] at hr
    subst hr
    have h1 := renameL_rng lo as st hf.2 hm
    simp only [rngG, rngArgs, Bool.and_eq_true]
    exact ⟨⟨hf.1, h1.1⟩, h1.2.1, h1.2.2⟩
  | .and gs, st, hf, hm, r, hr => by
    simp only [ffreeG] at hf
    simp only [renameGoal] at hr
    cases h1 : renameGoals gs st with
    | ok r1 =>
      simp only [h1, Res.bind_ok, Res.ok.injEq] at hr
      subst hr
      simpa only [rngG] using renameGoals_rng lo gs st hf hm r1 h1
    | fail => simp [h1, Res.bind] at hr
    | panic => simp [h1, Res.bind] at hr
    | oof => simp [h1, Res.bind] at hr
  | .or gs, st, hf, hm, r, hr => by
    simp only [ffreeG] at hf
    simp only [renameGoal] at hr
    cases h1 : renameGoals gs st with
    | ok r1 =>
      simp only [h1, Res.bind_ok, Res.ok.injEq] at hr
      subst hr
      simpa only [rngG] using renameGoals_rng lo gs st hf hm r1 h1
    | fail => simp [h1, Res.bind] at hr
    | panic => simp [h1, Res.bind] at hr
    | oof => simp [h1, Res.bind] at hr
  | .time gs, st, hf, hm, r, hr => by
    simp only [ffreeG] at hf
    simp only [renameGoal] at hr
    cases h1 : renameGoals gs st with
    | ok r1 =>
      simp only [h1, Res.bind_ok, Res.ok.injEq] at hr
      subst hr
      simpa only [rngG] using renameGoals_rng lo gs st hf hm r1 h1
    | fail => simp [h1, Res.bind] at hr
    | panic => simp [h1, Res.bind] at hr
    | oof => simp [h1, Res.bind] at hr
  | .not gs, st, hf, hm, r, hr => by
    simp only [ffreeG] at hf
    simp only [renameGoal] at hr
    cases h1 : renameGoals gs st with
    | ok r1 =>
      simp only [h1, Res.bind_ok, Res.ok.injEq] at hr
      subst hr
      simpa only [rngG] using renameGoals_rng lo gs st hf hm r1 h1
    | fail => simp [h1, Res.bind] at hr
    | panic => simp [h1, Res.bind] at hr
    | oof => simp [h1, Res.bind] at hr
  | .nil, _, _, _, _, hr => by simp [renameGoal] at hr
theorem renameGoals_rng (lo : Nat) : ∀ (gs : GoalList) (st : RenSt), ffreeGL gs = true → MapB lo st → ∀ r, renameGoals gs st = .ok r →
    rngGL lo r.2.counter r.1 = true ∧ MapB lo r.2 ∧ st.counter ≤ r.2.counter
  | .nil, st, _, hm, r, hr => by
    simp only [renameGoals, Res.ok.injEq] at hr
    subst hr
    exact ⟨rfl, hm, Nat.le_refl _⟩
  | .cons g gs, st, hf, hm, r, hr => by
    simp only [ffreeGL, Bool.and_eq_true] at hf
    simp only [renameGoals] at hr
    cases h1 : renameGoal g st with
    | ok r1 =>
      simp only [h1, Res.bind_ok] at hr
      cases h2 : renameGoals gs r1.2 with
      | ok r2 =>
        simp only [h2, Res.bind_ok, Res.ok.injEq] at hr
        subst hr
        obtain ⟨a1, m1, c1⟩ := renameGoal_rng lo g st hf.1 hm r1 h1
        obtain ⟨a2, m2, c2⟩ := renameGoals_rng lo gs r1.2 hf.2 m1 r2 h2
        simp only [rngGL, Bool.and_eq_true]
        exact ⟨⟨rngG_mono c2 _ a1, a2⟩, m2, Nat.le_trans c1 c2⟩
      | fail => simp [h2, Res.bind] at hr
      | panic => simp [h2, Res.bind] at hr
      | oof => simp [h2, Res.bind] at hr
    | fail => simp [h1, Res.bind] at hr
    | panic => simp [h1, Res.bind] at hr
    | oof => simp [h1, Res.bind] at hr
end

/-- a rule of the fragment before renaming -/
def ruleOK (r : Rule) : Prop := (ffree r.head = true ∧ callOK r.head = true) ∧ ffreeG r.body = true

theorem renameRule_rng (c : Nat) (r : Rule) (hr : ruleOK r) (x : Rule × RenSt) (hx : renameRule r ⟨[], c⟩ = .ok x) :
    c ≤ x.2.counter ∧ (rng c x.2.counter x.1.head = true ∧ callOK x.1.head = true) ∧ rngG c x.2.counter x.1.body = true := by
  obtain ⟨head, body⟩ := r
  obtain ⟨⟨hh, hc⟩, hb⟩ := hr
  simp only at hh hc hb
  have hm0 : MapB c ⟨[], c⟩ := ⟨fun n i h => by simp [VarMap.get] at h, Nat.le_refl _⟩
  obtain ⟨rh, mh, ch⟩ := rename_rng c head ⟨[], c⟩ hh hm0
  have hcall := callOK_rename head ⟨[], c⟩ hc
  simp only at ch
  simp only [renameRule] at hx
  cases body with
  | nil =>
    simp only [Res.ok.injEq] at hx
    subst hx
    exact ⟨ch, ⟨rh, hcall⟩, rfl⟩
  | call t =>
    simp only [Res.ok.injEq] at hx
    subst hx
    simp only [ffreeG, Bool.and_eq_true] at hb
    obtain ⟨rt, mt, ct⟩ := rename_rng c t _ hb.1 mh
    simp only [rngG, Bool.and_eq_true]
    exact ⟨Nat.le_trans ch ct, ⟨rng_mono ct _ rh, hcall⟩, rt, callOK_rename t _ hb.2⟩
  | bip name args =>
    cases args with
    | none =>
      simp only [Res.ok.injEq] at hx
      subst hx
      exact ⟨ch, ⟨rh, hcall⟩, by simpa only [ffreeG, rngG, ffreeArgs, rngArgs] using hb⟩
    | some as =>
      simp only [Res.ok.injEq] at hx
      subst hx
      simp only [ffreeG, ffreeArgs, Bool.and_eq_true] at hb
      obtain ⟨ra, ma, ca⟩ := renameL_rng c as _ hb.2 mh
      simp only [rngG, rngArgs, Bool.and_eq_true]
      exact ⟨Nat.le_trans ch ca, ⟨rng_mono ca _ rh, hcall⟩, hb.1, ra⟩
  | and gs =>
    simp only [ffreeG] at hb
    cases h1 : renameGoals gs (renameTerm head ⟨[], c⟩).2 with
    | ok r1 =>
      simp only [h1, Res.bind_ok, Res.ok.injEq] at hx
      subst hx
      obtain ⟨a, m, cc⟩ := renameGoals_rng c gs _ hb mh r1 h1
      exact ⟨Nat.le_trans ch cc, ⟨rng_mono cc _ rh, hcall⟩, by simpa only [rngG] using a⟩
    | fail => simp [h1, Res.bind] at hx
    | panic => simp [h1, Res.bind] at hx
    | oof => simp [h1, Res.bind] at hx
  | or gs =>
    simp only [ffreeG] at hb
    cases h1 : renameGoals gs (renameTerm head ⟨[], c⟩).2 with
    | ok r1 =>
      simp only [h1, Res.bind_ok, Res.ok.injEq] at hx
      subst hx
      obtain ⟨a, m, cc⟩ := renameGoals_rng c gs _ hb mh r1 h1
      exact ⟨Nat.le_trans ch cc, ⟨rng_mono cc _ rh, hcall⟩, by simpa only [rngG] using a⟩
    | fail => simp [h1, Res.bind] at hx
    | panic => simp [h1, Res.bind] at hx
    | oof => simp [h1, Res.bind] at hx
  | time gs =>
    simp only [ffreeG] at hb
    cases h1 : renameGoals gs (renameTerm head ⟨[], c⟩).2 with
    | ok r1 =>
      simp only [h1, Res.bind_ok, Res.ok.injEq] at hx
      subst hx
      obtain ⟨a, m, cc⟩ := renameGoals_rng c gs _ hb mh r1 h1
      exact ⟨Nat.le_trans ch cc, ⟨rng_mono cc _ rh, hcall⟩, by simpa only [rngG] using a⟩
    | fail => simp [h1, Res.bind] at hx
    | panic => simp [h1, Res.bind] at hx
    | oof => simp [h1, Res.bind] at hx
  | not gs =>
    simp only [ffreeG] at hb
    cases h1 : renameGoals gs (renameTerm head ⟨[], c⟩).2 with
    | ok r1 =>
      simp only [h1, Res.bind_ok, Res.ok.injEq] at hx
      subst hx
      obtain ⟨a, m, cc⟩ := renameGoals_rng c gs _ hb mh r1 h1
      exact ⟨Nat.le_trans ch cc, ⟨rng_mono cc _ rh, hcall⟩, by simpa only [rngG] using a⟩
    | fail => simp [h1, Res.bind] at hx
    | panic => simp [h1, Res.bind] at hx
    | oof => simp [h1, Res.bind] at hx

/-! ### the two knowledge bases -/

/-- rule for rule, the second list is the first with the variable names of each rule rewritten by an injective map of its own -/
inductive RulesRen : List Rule → List Rule → Prop where
  | nil : RulesRen [] []
  | cons {r : Rule} {rs rs' : List Rule} (ρ : String → String) (hρ : SInj ρ) : RulesRen rs rs' → RulesRen (r :: rs) (mapRule ρ r :: rs')

inductive KBRen : KB → KB → Prop where
  | nil : KBRen [] []
  | cons {key : String} {rs rs' : List Rule} {kb kb' : KB} : RulesRen rs rs' → KBRen kb kb' → KBRen ((key, rs) :: kb) ((key, rs') :: kb')

theorem RulesRen.length {rs rs' : List Rule} (h : RulesRen rs rs') : rs'.length = rs.length := by
  induction h with
  | nil => rfl
  | cons _ _ _ ih => simp [ih]

theorem RulesRen.get {rs rs' : List Rule} (h : RulesRen rs rs') : ∀ (idx : Nat) (r : Rule), rs[idx]? = some r →
    ∃ ρ, SInj ρ ∧ rs'[idx]? = some (mapRule ρ r) := by
  induction h with
  | nil => intro idx r hr; simp at hr
  | @cons r0 rs rs' ρ hρ _ ih =>
    intro idx r hr
    cases idx with
    | zero => simp at hr; subst hr; exact ⟨ρ, hρ, by simp⟩
    | succ i => simp at hr; simpa using ih i r hr

theorem KBRen.get {kb kb' : KB} (h : KBRen kb kb') (key : String) :
    (kb.get key = none ∧ kb'.get key = none) ∨ ∃ rs rs', kb.get key = some rs ∧ kb'.get key = some rs' ∧ RulesRen rs rs' := by
  induction h with
  | nil => exact Or.inl ⟨rfl, rfl⟩
  | @cons k rs rs' kb kb' hr _ ih =>
    simp only [KB.get]
    by_cases e : k = key
    · simp only [e, if_true]; exact Or.inr ⟨rs, rs', rfl, rfl, hr⟩
    · simp only [e, if_false]; exact ih

/-- every rule of the knowledge base lies in the fragment -/
def kbOK (kb : KB) : Prop := ∀ key rs, kb.get key = some rs → ∀ r ∈ rs, ruleOK r

/-- CONSISTENT RENAMING OF EACH RULE: the renamed knowledge base hands out the same clauses up to names -/
theorem kbRel_of_kbRen {kb kb' : KB} (h : KBRen kb kb') (hok : kbOK kb) : KBRel kb kb' := by
  refine ⟨?_, ?_⟩
  · intro key
    unfold ruleCount
    rcases h.get key with ⟨e1, e2⟩ | ⟨rs, rs', e1, e2, hr⟩
    · rw [e1, e2]
    · rw [e1, e2]; exact hr.length
  · intro key idx c r1 c' hget
    unfold getRule at hget
    rcases h.get key with ⟨e1, _⟩ | ⟨rs, rs', e1, e2, hrr⟩
    · simp [e1] at hget
    simp only [e1] at hget
    cases hi : rs[idx]? with
    | none => simp [hi] at hget
    | some r =>
      simp only [hi] at hget
      cases hx : renameRule r ⟨[], c⟩ with
      | ok x =>
        simp only [hx, Res.bind_ok, Res.ok.injEq, Prod.mk.injEq] at hget
        obtain ⟨hx1, hx2⟩ := hget
        have hrok : ruleOK r := hok key rs e1 r (List.mem_of_getElem? hi)
        obtain ⟨hcc, hhead, hbody⟩ := renameRule_rng c r hrok x hx
        rw [hx2] at hcc hhead hbody
        rw [hx1] at hhead hbody
        refine ⟨hcc, ⟨good_of_rng _ hhead.1, hhead.2⟩, goodG_of_rngG _ hbody, ?_⟩
        intro ν hinj
        obtain ⟨ρ, hρ, hi'⟩ := hrr.get idx r hi
        refine ⟨fun i => if c < i then ρ else ν i, ?_, ?_, ?_⟩
        · intro i a b hab
          by_cases hci : c < i
          · simp only [hci, if_true] at hab; exact hρ a b hab
          · simp only [hci, if_false] at hab; exact hinj i a b hab
        · intro i hi2
          have : ¬ c < i := by omega
          simp only [this, if_false]
        · have hab : ∀ i, c < i → (fun i => if c < i then ρ else ν i) i = ρ := by intro i hci; simp only [hci, if_true]
          rw [mapN_above hab _ hhead.1, mapG_above hab _ hbody]
          unfold getRule
          simp only [e2, hi']
          have hc := renameRule_comm ρ hρ r ⟨[], c⟩
          have e0 : mapSt ρ ⟨[], c⟩ = ⟨[], c⟩ := rfl
          rw [e0, hx] at hc
          have hc' : renameRule (mapRule ρ r) ⟨[], c⟩ = .ok (mapRule ρ x.1, mapSt ρ x.2) := hc
          rw [hc']
          simp only [Res.bind_ok, mapRule, mapSt, hx1, hx2]
      | fail => simp [hx, Res.bind] at hget
      | panic => simp [hx, Res.bind] at hget
      | oof => simp [hx, Res.bind] at hget

end Suiron.Blind
