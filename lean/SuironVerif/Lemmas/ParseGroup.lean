/-
  The grouping stage of `generate_goal` never panics: shape invariants of the token list the tokenizer
  produces, of the token tree `group_tokens` builds from it, and of what `group_and_tokens` /
  `group_or_tokens` make of that tree, strong enough that `token_tree_to_goal` never meets a leaf that is not a
  subgoal or a group without exactly one child.
-/
import SuironVerif.Lemmas.ParseSafe
namespace Suiron.Parse
open Suiron

def Token.isLeaf : Token → Prop
  | .leaf _ _ => True
  | .branch _ _ => False

/-- trees on which `token_tree_to_goal` cannot panic -/
inductive NP : Token → Prop where
  | leaf {s} : NP (.leaf .subgoal s)
  | andor {ty cs} : (ty = .and ∨ ty = .or) → (∀ c ∈ cs, ¬ c.isLeaf → NP c) → NP (.branch ty cs)
  | group {c} : NP c → NP (.branch .group [c])

theorem tree_ne_panic (po : POps) (hsub : ∀ f s, parseSubgoal po f s ≠ .panic) : ∀ f,
    (∀ t, NP t → tokenTreeToGoal po f t ≠ .panic) ∧
    (∀ inOr cs, (∀ c ∈ cs, ¬ c.isLeaf → NP c) → operands po f inOr cs ≠ .panic) := by
  intro f
  induction f with
  | zero => exact ⟨fun t _ => by simp [tokenTreeToGoal], fun _ cs _ => by simp [operands]⟩
  | succ f ih =>
    obtain ⟨ih1, ih2⟩ := ih
    refine ⟨?_, ?_⟩
    · intro t ht
      cases ht with
      | leaf => simp only [tokenTreeToGoal]; simp; exact hsub _ _
      | andor hty hcs =>
        simp only [tokenTreeToGoal]
        have := ih2 false _ hcs
        have := ih2 true _ hcs
        rcases hty with rfl | rfl
        · simp; exact Res.bind_ne_panic (ih2 false _ hcs) (fun _ _ => by simp)
        · simp; exact Res.bind_ne_panic (ih2 true _ hcs) (fun _ _ => by simp)
      | group hc =>
        simp only [tokenTreeToGoal]
        simp
        exact ih1 _ hc
    · intro inOr cs hcs
      cases cs with
      | nil => simp [operands]
      | cons child rest =>
        have hrest : operands po f inOr rest ≠ .panic := ih2 inOr rest (fun c hc => hcs c (by simp [hc]))
        simp only [operands]
        split
        · split
          · exact Res.bind_ne_panic (hsub _ _) (fun _ _ => Res.bind_ne_panic hrest (fun _ _ => by simp))
          · exact hrest
        · rename_i ty cs'
          split
          · have hc : NP (.branch ty cs') := hcs (.branch ty cs') (by simp) (fun h => h)
            exact Res.bind_ne_panic (ih1 _ hc) (fun _ _ => Res.bind_ne_panic hrest (fun _ _ => by simp))
          · exact hrest

/-! ### what `group_tokens` builds, and what `group_and_tokens` / `group_or_tokens` make of it -/

def isSub : Token → Prop
  | .leaf .subgoal _ => True
  | _ => False

/-- output of `group_tokens`: a group whose first child is a subgoal or a group; nested groups likewise;
    no leaf carries the type of a branch -/
inductive S0 : Token → Prop where
  | mk {c rest} : (c.isLeaf → isSub c) → (∀ x ∈ c :: rest, ¬ x.isLeaf → S0 x) →
      (∀ x ∈ c :: rest, x.isLeaf → x.ty ≠ .group) → S0 (.branch .group (c :: rest))

/-- a processed group: exactly one child, on which `token_tree_to_goal` cannot panic -/
def R (t : Token) : Prop := ∃ x, t = .branch .group [x] ∧ NP x
/-- an element of an and-list -/
def Elem (c : Token) : Prop := isSub c ∨ R c
def AndB (c : Token) : Prop := ∃ cs, c = .branch .and cs ∧ ∀ e ∈ cs, Elem e
/-- a child of a group after `group_and_tokens` -/
def NCe (c : Token) : Prop := Elem c ∨ AndB c ∨ ∃ s, c = .leaf .semicolon s
/-- a group after `group_and_tokens` -/
def S1 (t : Token) : Prop := ∃ cs, t = .branch .group cs ∧ (∀ c ∈ cs, NCe c) ∧ ∃ c ∈ cs, Elem c ∨ AndB c

theorem R.np {t : Token} (h : R t) : NP t := by
  obtain ⟨x, rfl, hx⟩ := h; exact .group hx

theorem Elem.np {c : Token} (h : Elem c) : ¬ c.isLeaf → NP c := by
  intro hl
  rcases h with h | h
  · cases c with
    | leaf ty s => exact absurd trivial hl
    | branch ty cs => exact h.elim
  · exact h.np

theorem AndB.np {c : Token} (h : AndB c) : NP c := by
  obtain ⟨cs, rfl, hcs⟩ := h
  exact .andor (Or.inl rfl) (fun e he => (hcs e he).np)

theorem isSub_ty {c : Token} (h : isSub c) : c.ty = .subgoal := by
  cases c with
  | leaf ty s => cases ty <;> first | rfl | exact h.elim
  | branch ty cs => exact h.elim

theorem mkBranch_ok (ty : TokTy) (cs : List Token) (h : ty = .and ∨ ty = .or ∨ ty = .group) :
    makeBranchToken ty cs = .ok (.branch ty cs) := by
  unfold makeBranchToken
  rcases h with rfl | rfl | rfl <;> rfl

/-- `group_or_tokens` on a group that went through `group_and_tokens` -/
theorem groupOr_S1 (fuel : Nat) (t1 : Token) (h : S1 t1) :
    groupOr (fuel + 1) t1 ≠ .panic ∧ ∀ t2, groupOr (fuel + 1) t1 = .ok t2 → R t2 := by
  obtain ⟨cs, rfl, hall, c0, hc0, hgood⟩ := h
  simp only [groupOr]
  have hfil : ∀ c ∈ cs.filter (fun c => c.ty == .subgoal || c.ty == .and || c.ty == .group), Elem c ∨ AndB c := by
    intro c hc
    obtain ⟨hin, hty⟩ := List.mem_filter.mp hc
    rcases hall c hin with h | h | ⟨s, rfl⟩
    · exact Or.inl h
    · exact Or.inr h
    · simp [Token.ty] at hty
  have hne : c0 ∈ cs.filter (fun c => c.ty == .subgoal || c.ty == .and || c.ty == .group) := by
    apply List.mem_filter.mpr ⟨hc0, ?_⟩
    rcases hgood with h | h
    · rcases h with h | ⟨x, rfl, _⟩
      · simp [isSub_ty h]
      · simp [Token.ty]
    · obtain ⟨cs', rfl, _⟩ := h; simp [Token.ty]
  have npOf : ∀ c, Elem c ∨ AndB c → (¬ c.isLeaf → NP c) := by
    intro c h
    rcases h with h | h
    · exact h.np
    · exact fun _ => h.np
  generalize cs.filter (fun c => c.ty == .subgoal || c.ty == .and || c.ty == .group) = ol at hfil hne
  have hlen : ol.length ≠ 0 := by intro h0; rw [List.length_eq_zero_iff.mp h0] at hne; simp at hne
  split
  · rename_i h1
    rw [mkBranch_ok _ _ (Or.inr (Or.inr rfl))]
    refine ⟨by simp, fun t2 h => ?_⟩
    cases h
    match ol, h1, hfil with
    | [x], _, hfil =>
      refine ⟨x, rfl, ?_⟩
      rcases hfil x (by simp) with h | h
      · rcases h with h | h
        · cases x with
          | leaf ty s => cases ty <;> first | exact .leaf | exact h.elim
          | branch ty cs => exact h.elim
        · exact h.np
      · exact h.np
  · split
    · rw [mkBranch_ok _ _ (Or.inr (Or.inl rfl))]
      simp only [Res.bind]
      rw [mkBranch_ok _ _ (Or.inr (Or.inr rfl))]
      refine ⟨by simp, fun t2 h => ?_⟩
      cases h
      exact ⟨_, rfl, .andor (Or.inr rfl) (fun c hc => npOf c (hfil c hc))⟩
    · rename_i h1 h2
      have : ol.length = 0 := by
        simp at h1 h2; omega
      exact absurd this hlen

theorem S0.children {ty : TokTy} {cs : List Token} (h : S0 (.branch ty cs)) :
    ty = .group ∧ (∀ x ∈ cs, ¬ x.isLeaf → S0 x) ∧ (∀ x ∈ cs, x.isLeaf → x.ty ≠ .group) ∧
    ∃ c rest, cs = c :: rest ∧ (c.isLeaf → isSub c) := by
  cases h with
  | mk h1 h2 h3 => exact ⟨rfl, h2, h3, _, _, rfl, h1⟩

theorem all_snoc {P : Token → Prop} {l : List Token} {a : Token} (hl : ∀ c ∈ l, P c) (ha : P a) : ∀ c ∈ l ++ [a], P c := by
  intro c hc
  rcases List.mem_append.mp hc with h | h
  · exact hl c h
  · simp at h; subst h; exact ha

theorem all_app {P : Token → Prop} {l l' : List Token} (hl : ∀ c ∈ l, P c) (hl' : ∀ c ∈ l', P c) : ∀ c ∈ l ++ l', P c := by
  intro c hc
  rcases List.mem_append.mp hc with h | h
  · exact hl c h
  · exact hl' c h

/-- `group_and_tokens`: no panic, and the result is a group with at least one subgoal, group or conjunction -/
theorem groupAnd_S0 : ∀ fuel,
    (∀ t, S0 t → groupAnd fuel t ≠ .panic ∧ ∀ t1, groupAnd fuel t = .ok t1 → S1 t1) ∧
    (∀ cs nc al, (∀ x ∈ cs, ¬ x.isLeaf → S0 x) → (∀ x ∈ cs, x.isLeaf → x.ty ≠ .group) → (∀ c ∈ nc, NCe c) → (∀ c ∈ al, Elem c) →
        ((∃ c ∈ nc, Elem c ∨ AndB c) ∨ al ≠ [] ∨ (∃ x ∈ cs, isSub x ∨ S0 x)) →
        groupAndLoop fuel .group cs nc al ≠ .panic ∧ ∀ r, groupAndLoop fuel .group cs nc al = .ok r → S1 r) := by
  intro fuel
  induction fuel with
  | zero =>
    exact ⟨fun t _ => ⟨by simp [groupAnd], fun _ h => by simp [groupAnd] at h⟩,
           fun cs nc al _ _ _ _ _ => ⟨by simp [groupAndLoop], fun _ h => by simp [groupAndLoop] at h⟩⟩
  | succ fuel ih =>
    obtain ⟨ih1, ih2⟩ := ih
    refine ⟨?_, ?_⟩
    · intro t ht
      cases t with
      | leaf ty s => cases ht
      | branch ty cs =>
        obtain ⟨rfl, h2, h3, c, rest, rfl, h1⟩ := ht.children
        simp only [groupAnd]
        apply ih2 _ [] [] h2 h3 (by simp) (by simp)
        right; right
        refine ⟨c, by simp, ?_⟩
        by_cases hl : c.isLeaf
        · exact Or.inl (h1 hl)
        · exact Or.inr (h2 c (by simp) hl)
    · intro cs nc al hcs hty hnc hal hprog
      cases cs with
      | nil =>
        have hprog' : (∃ c ∈ nc, Elem c ∨ AndB c) ∨ al ≠ [] := by
          rcases hprog with h | h | ⟨x, hx, _⟩
          · exact Or.inl h
          · exact Or.inr h
          · simp at hx
        simp only [groupAndLoop]
        split
        · rename_i h1
          rw [mkBranch_ok _ _ (Or.inr (Or.inr rfl))]
          refine ⟨by simp, fun r h => ?_⟩
          cases h
          refine ⟨_, rfl, all_app hnc (fun c hc => Or.inl (hal c hc)), ?_⟩
          match al, h1, hal with
          | [a], _, hal => exact ⟨a, by simp, Or.inl (hal a (by simp))⟩
        · split
          · rw [mkBranch_ok _ _ (Or.inl rfl)]
            simp only [Res.bind]
            rw [mkBranch_ok _ _ (Or.inr (Or.inr rfl))]
            refine ⟨by simp, fun r h => ?_⟩
            cases h
            have hand : AndB (.branch .and al) := ⟨al, rfl, hal⟩
            exact ⟨_, rfl, all_snoc hnc (Or.inr (Or.inl hand)), _, by simp, Or.inr hand⟩
          · rename_i h1 h2
            have hal0 : al = [] := by
              apply List.eq_nil_of_length_eq_zero
              simp at h1 h2; omega
            rw [mkBranch_ok _ _ (Or.inr (Or.inr rfl))]
            refine ⟨by simp, fun r h => ?_⟩
            cases h
            rcases hprog' with h | h
            · exact ⟨_, rfl, hnc, h⟩
            · exact absurd hal0 h
      | cons child rest =>
        have hrest1 : ∀ x ∈ rest, ¬ x.isLeaf → S0 x := fun x hx => hcs x (by simp [hx])
        have hrest2 : ∀ x ∈ rest, x.isLeaf → x.ty ≠ .group := fun x hx => hty x (by simp [hx])
        -- progress carried by the rest of the children
        have restprog : (∃ x ∈ child :: rest, isSub x ∨ S0 x) → (isSub child ∨ S0 child) ∨ ∃ x ∈ rest, isSub x ∨ S0 x := by
          rintro ⟨x, hx, h⟩
          simp at hx
          rcases hx with rfl | hx
          · exact Or.inl h
          · exact Or.inr ⟨x, hx, h⟩
        simp only [groupAndLoop]
        split
        · -- a subgoal joins the and-list
          rename_i hsub
          have hchild : Elem child := by
            left
            cases child with
            | leaf ty s => simp [Token.ty] at hsub; subst hsub; trivial
            | branch ty cs' =>
              have := (hcs (.branch ty cs') (by simp) (fun h => h)).children.1
              subst this; simp [Token.ty] at hsub
          exact ih2 rest nc (al ++ [child]) hrest1 hrest2 hnc (all_snoc hal hchild) (Or.inr (Or.inl (by simp)))
        · split
          · -- a comma
            rename_i hns hcomma
            apply ih2 rest nc al hrest1 hrest2 hnc hal
            rcases hprog with h | h | h
            · exact Or.inl h
            · exact Or.inr (Or.inl h)
            · rcases restprog h with h | h
              · exfalso
                rcases h with h | h
                · exact hns (by simp [isSub_ty h])
                · cases child with
                  | leaf ty s => cases h
                  | branch ty cs' => have := h.children.1; subst this; simp [Token.ty] at hcomma
              · exact Or.inr (Or.inr h)
          · split
            · -- a semicolon: the and-list is closed
              rename_i hns hnc' hsemi
              have hsc : NCe child := by
                right; right
                cases child with
                | leaf ty s => simp [Token.ty] at hsemi; subst hsemi; exact ⟨s, rfl⟩
                | branch ty cs' =>
                  have := (hcs (.branch ty cs') (by simp) (fun h => h)).children.1
                  subst this; simp [Token.ty] at hsemi
              have hnotgood : ¬ (isSub child ∨ S0 child) := by
                rintro (h | h)
                · exact hns (by simp [isSub_ty h])
                · cases child with
                  | leaf ty s => cases h
                  | branch ty cs' => have := h.children.1; subst this; simp [Token.ty] at hsemi
              split
              · rename_i h1
                refine ih2 rest (nc ++ al ++ [child]) [] hrest1 hrest2 (all_snoc (all_app hnc (fun c hc => Or.inl (hal c hc))) hsc) (by simp) ?_
                left
                match al, h1, hal with
                | [a], _, hal => exact ⟨a, by simp, Or.inl (hal a (by simp))⟩
              · rw [mkBranch_ok _ _ (Or.inl rfl)]
                simp only [Res.bind]
                have hand : AndB (.branch .and al) := ⟨al, rfl, hal⟩
                refine ih2 rest (nc ++ [.branch .and al, child]) [] hrest1 hrest2 ?_ (by simp) ?_
                · apply all_app hnc
                  intro c hc; simp at hc
                  rcases hc with rfl | rfl
                  · exact Or.inr (Or.inl hand)
                  · exact hsc
                · left; exact ⟨.branch .and al, by simp, Or.inr hand⟩
            · split
              · -- a group: processed on its own, then joins the and-list
                rename_i hns hnc' hnsemi hgrp
                have hS0 : S0 child := by
                  cases child with
                  | leaf ty s => exact absurd (by simpa [Token.ty] using hgrp) (hty (.leaf ty s) (by simp) trivial)
                  | branch ty cs' => exact hcs _ (by simp) (fun h => h)
                obtain ⟨hA1, hA2⟩ := ih1 child hS0
                refine ⟨?_, ?_⟩
                · refine Res.bind_ne_panic hA1 (fun t1 ht1 => ?_)
                  cases fuel with
                  | zero => simp [groupAnd] at ht1
                  | succ fuel' =>
                    obtain ⟨hO1, hO2⟩ := groupOr_S1 fuel' t1 (hA2 t1 ht1)
                    refine Res.bind_ne_panic hO1 (fun t2 ht2 => ?_)
                    exact (ih2 rest nc (al ++ [t2]) hrest1 hrest2 hnc (all_snoc hal (Or.inr (hO2 t2 ht2))) (Or.inr (Or.inl (by simp)))).1
                · intro r hr
                  obtain ⟨t1, ht1, hr⟩ := Res.bind_eq_ok.mp hr
                  obtain ⟨t2, ht2, hr⟩ := Res.bind_eq_ok.mp hr
                  cases fuel with
                  | zero => simp [groupAnd] at ht1
                  | succ fuel' =>
                    obtain ⟨hO1, hO2⟩ := groupOr_S1 fuel' t1 (hA2 t1 ht1)
                    exact (ih2 rest nc (al ++ [t2]) hrest1 hrest2 hnc (all_snoc hal (Or.inr (hO2 t2 ht2))) (Or.inr (Or.inl (by simp)))).2 r hr
              · -- anything else is dropped
                rename_i hns hnc' hnsemi hngrp
                apply ih2 rest nc al hrest1 hrest2 hnc hal
                rcases hprog with h | h | h
                · exact Or.inl h
                · exact Or.inr (Or.inl h)
                · rcases restprog h with h | h
                  · exfalso
                    rcases h with h | h
                    · exact hns (by simp [isSub_ty h])
                    · cases child with
                      | leaf ty s => cases h
                      | branch ty cs' => have := h.children.1; subst this; simp [Token.ty] at hngrp
                  · exact Or.inr (Or.inr h)

end Suiron.Parse
