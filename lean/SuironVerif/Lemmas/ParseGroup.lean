/-
  The grouping stage of `generate_goal` never panics: shape invariants of the token list the tokenizer
  produces, of the token tree `group_tokens` builds from it, and of what `group_and_tokens` /
  `group_or_tokens` make of that tree, strong enough that `token_tree_to_goal` never meets a leaf that is not a
  subgoal or a group without exactly one child.
-/
import SuironVerif.Lemmas.ParseSafe
namespace Suiron.Parse
open Suiron

def Token.isLeaf : Token → Prop
  | .leaf _ _ => True
  | .branch _ _ => False

/-- trees on which `token_tree_to_goal` cannot panic -/
inductive NP : Token → Prop where
  | leaf {s} : NP (.leaf .subgoal s)
  | andor {ty cs} : (ty = .and ∨ ty = .or) → (∀ c ∈ cs, ¬ c.isLeaf → NP c) → NP (.branch ty cs)
  | group {c} : NP c → NP (.branch .group [c])

theorem tree_ne_panic (po : POps) (hsub : ∀ f s, parseSubgoal po f s ≠ .panic) : ∀ f,
    (∀ t, NP t → tokenTreeToGoal po f t ≠ .panic) ∧
    (∀ inOr cs, (∀ c ∈ cs, ¬ c.isLeaf → NP c) → operands po f inOr cs ≠ .panic) := by
  intro f
  induction f with
  | zero => exact ⟨fun t _ => by simp [tokenTreeToGoal], fun _ cs _ => by simp [operands]⟩
  | succ f ih =>
    obtain ⟨ih1, ih2⟩ := ih
    refine ⟨?_, ?_⟩
    · intro t ht
      cases ht with
      | leaf => simp only [tokenTreeToGoal]; simp; exact hsub _ _
      | andor hty hcs =>
        simp only [tokenTreeToGoal]
        have := ih2 false _ hcs
        have := ih2 true _ hcs
        rcases hty with rfl | rfl
        · simp; exact Res.bind_ne_panic (ih2 false _ hcs) (fun _ _ => by simp)
        · simp; exact Res.bind_ne_panic (ih2 true _ hcs) (fun _ _ => by simp)
      | group hc =>
        simp only [tokenTreeToGoal]
        simp
        exact ih1 _ hc
    · intro inOr cs hcs
      cases cs with
      | nil => simp [operands]
      | cons child rest =>
        have hrest : operands po f inOr rest ≠ .panic := ih2 inOr rest (fun c hc => hcs c (by simp [hc]))
        simp only [operands]
        split
        · split
          · exact Res.bind_ne_panic (hsub _ _) (fun _ _ => Res.bind_ne_panic hrest (fun _ _ => by simp))
          · exact hrest
        · rename_i ty cs'
          split
          · have hc : NP (.branch ty cs') := hcs (.branch ty cs') (by simp) (fun h => h)
            exact Res.bind_ne_panic (ih1 _ hc) (fun _ _ => Res.bind_ne_panic hrest (fun _ _ => by simp))
          · exact hrest

/-! ### what `group_tokens` builds, and what `group_and_tokens` / `group_or_tokens` make of it -/

def isSub : Token → Prop
  | .leaf .subgoal _ => True
  | _ => False

/-- output of `group_tokens`: a group whose first child is a subgoal or a group; nested groups likewise;
    no leaf carries the type of a branch -/
inductive S0 : Token → Prop where
  | mk {c rest} : (c.isLeaf → isSub c) → (∀ x ∈ c :: rest, ¬ x.isLeaf → S0 x) →
      (∀ x ∈ c :: rest, x.isLeaf → x.ty ≠ .group) → S0 (.branch .group (c :: rest))

/-- a processed group: exactly one child, on which `token_tree_to_goal` cannot panic -/
def R (t : Token) : Prop := ∃ x, t = .branch .group [x] ∧ NP x
/-- an element of an and-list -/
def Elem (c : Token) : Prop := isSub c ∨ R c
def AndB (c : Token) : Prop := ∃ cs, c = .branch .and cs ∧ ∀ e ∈ cs, Elem e
/-- a child of a group after `group_and_tokens` -/
def NCe (c : Token) : Prop := Elem c ∨ AndB c ∨ ∃ s, c = .leaf .semicolon s
/-- a group after `group_and_tokens` -/
def S1 (t : Token) : Prop := ∃ cs, t = .branch .group cs ∧ (∀ c ∈ cs, NCe c) ∧ ∃ c ∈ cs, Elem c ∨ AndB c

theorem R.np {t : Token} (h : R t) : NP t := by
  obtain ⟨x, rfl, hx⟩ := h; exact .group hx

theorem Elem.np {c : Token} (h : Elem c) : ¬ c.isLeaf → NP c := by
  intro hl
  rcases h with h | h
  · cases c with
    | leaf ty s => exact absurd trivial hl
    | branch ty cs => exact h.elim
  · exact h.np

theorem AndB.np {c : Token} (h : AndB c) : NP c := by
  obtain ⟨cs, rfl, hcs⟩ := h
  exact .andor (Or.inl rfl) (fun e he => (hcs e he).np)

theorem isSub_ty {c : Token} (h : isSub c) : c.ty = .subgoal := by
  cases c with
  | leaf ty s => cases ty <;> first | rfl | exact h.elim
  | branch ty cs => exact h.elim

theorem mkBranch_ok (ty : TokTy) (cs : List Token) (h : ty = .and ∨ ty = .or ∨ ty = .group) :
    makeBranchToken ty cs = .ok (.branch ty cs) := by
  unfold makeBranchToken
  rcases h with rfl | rfl | rfl <;> rfl

/-- `group_or_tokens` on a group that went through `group_and_tokens` -/
theorem groupOr_S1 (fuel : Nat) (t1 : Token) (h : S1 t1) :
    groupOr (fuel + 1) t1 ≠ .panic ∧ ∀ t2, groupOr (fuel + 1) t1 = .ok t2 → R t2 := by
  obtain ⟨cs, rfl, hall, c0, hc0, hgood⟩ := h
  simp only [groupOr]
  have hfil : ∀ c ∈ cs.filter (fun c => c.ty == .subgoal || c.ty == .and || c.ty == .group), Elem c ∨ AndB c := by
    intro c hc
    obtain ⟨hin, hty⟩ := List.mem_filter.mp hc
    rcases hall c hin with h | h | ⟨s, rfl⟩
    · exact Or.inl h
    · exact Or.inr h
    · simp [Token.ty] at hty
  have hne : c0 ∈ cs.filter (fun c => c.ty == .subgoal || c.ty == .and || c.ty == .group) := by
    apply List.mem_filter.mpr ⟨hc0, ?_⟩
    rcases hgood with h | h
    · rcases h with h | ⟨x, rfl, _⟩
      · simp [isSub_ty h]
      · simp [Token.ty]
    · obtain ⟨cs', rfl, _⟩ := h; simp [Token.ty]
  have npOf : ∀ c, Elem c ∨ AndB c → (¬ c.isLeaf → NP c) := by
    intro c h
    rcases h with h | h
    · exact h.np
    · exact fun _ => h.np
  generalize cs.filter (fun c => c.ty == .subgoal || c.ty == .and || c.ty == .group) = ol at hfil hne
  have hlen : ol.length ≠ 0 := by intro h0; rw [List.length_eq_zero_iff.mp h0] at hne; simp at hne
  split
  · rename_i h1
    rw [mkBranch_ok _ _ (Or.inr (Or.inr rfl))]
    refine ⟨by simp, fun t2 h => ?_⟩
    cases h
    match ol, h1, hfil with
    | [x], _, hfil =>
      refine ⟨x, rfl, ?_⟩
      rcases hfil x (by simp) with h | h
      · rcases h with h | h
        · cases x with
          | leaf ty s => cases ty <;> first | exact .leaf | exact h.elim
          | branch ty cs => exact h.elim
        · exact h.np
      · exact h.np
  · split
    · rw [mkBranch_ok _ _ (Or.inr (Or.inl rfl))]
      simp only [Res.bind]
      rw [mkBranch_ok _ _ (Or.inr (Or.inr rfl))]
      refine ⟨by simp, fun t2 h => ?_⟩
      cases h
      exact ⟨_, rfl, .andor (Or.inr rfl) (fun c hc => npOf c (hfil c hc))⟩
    · rename_i h1 h2
      have : ol.length = 0 := by
        simp at h1 h2; omega
      exact absurd this hlen

theorem S0.children {ty : TokTy} {cs : List Token} (h : S0 (.branch ty cs)) :
    ty = .group ∧ (∀ x ∈ cs, ¬ x.isLeaf → S0 x) ∧ (∀ x ∈ cs, x.isLeaf → x.ty ≠ .group) ∧
    ∃ c rest, cs = c :: rest ∧ (c.isLeaf → isSub c) := by
  cases h with
  | mk h1 h2 h3 => exact ⟨rfl, h2, h3, _, _, rfl, h1⟩

theorem all_snoc {P : Token → Prop} {l : List Token} {a : Token} (hl : ∀ c ∈ l, P c) (ha : P a) : ∀ c ∈ l ++ [a], P c := by
  intro c hc
  rcases List.mem_append.mp hc with h | h
  · exact hl c h
  · simp at h; subst h; exact ha

theorem all_app {P : Token → Prop} {l l' : List Token} (hl : ∀ c ∈ l, P c) (hl' : ∀ c ∈ l', P c) : ∀ c ∈ l ++ l', P c := by
  intro c hc
  rcases List.mem_append.mp hc with h | h
  · exact hl c h
  · exact hl' c h

/-- `group_and_tokens`: no panic, and the result is a group with at least one subgoal, group or conjunction -/
theorem groupAnd_S0 : ∀ fuel,
    (∀ t, S0 t → groupAnd fuel t ≠ .panic ∧ ∀ t1, groupAnd fuel t = .ok t1 → S1 t1) ∧
    (∀ cs nc al, (∀ x ∈ cs, ¬ x.isLeaf → S0 x) → (∀ x ∈ cs, x.isLeaf → x.ty ≠ .group) → (∀ c ∈ nc, NCe c) → (∀ c ∈ al, Elem c) →
        ((∃ c ∈ nc, Elem c ∨ AndB c) ∨ al ≠ [] ∨ (∃ x ∈ cs, isSub x ∨ S0 x)) →
        groupAndLoop fuel .group cs nc al ≠ .panic ∧ ∀ r, groupAndLoop fuel .group cs nc al = .ok r → S1 r) := by
  intro fuel
  induction fuel with
  | zero =>
    exact ⟨fun t _ => ⟨by simp [groupAnd], fun _ h => by simp [groupAnd] at h⟩,
           fun cs nc al _ _ _ _ _ => ⟨by simp [groupAndLoop], fun _ h => by simp [groupAndLoop] at h⟩⟩
  | succ fuel ih =>
    obtain ⟨ih1, ih2⟩ := ih
    refine ⟨?_, ?_⟩
    · intro t ht
      cases t with
      | leaf ty s => cases ht
      | branch ty cs =>
        obtain ⟨rfl, h2, h3, c, rest, rfl, h1⟩ := ht.children
        simp only [groupAnd]
        apply ih2 _ [] [] h2 h3 (by simp) (by simp)
        right; right
        refine ⟨c, by simp, ?_⟩
        by_cases hl : c.isLeaf
        · exact Or.inl (h1 hl)
        · exact Or.inr (h2 c (by simp) hl)
    · intro cs nc al hcs hty hnc hal hprog
      cases cs with
      | nil =>
        have hprog' : (∃ c ∈ nc, Elem c ∨ AndB c) ∨ al ≠ [] := by
          rcases hprog with h | h | ⟨x, hx, _⟩
          · exact Or.inl h
          · exact Or.inr h
          · simp at hx
        simp only [groupAndLoop]
        split
        · rename_i h1
          rw [mkBranch_ok _ _ (Or.inr (Or.inr rfl))]
          refine ⟨by simp, fun r h => ?_⟩
          cases h
          refine ⟨_, rfl, all_app hnc (fun c hc => Or.inl (hal c hc)), ?_⟩
          match al, h1, hal with
          | [a], _, hal => exact ⟨a, by simp, Or.inl (hal a (by simp))⟩
        · split
          · rw [mkBranch_ok _ _ (Or.inl rfl)]
            simp only [Res.bind]
            rw [mkBranch_ok _ _ (Or.inr (Or.inr rfl))]
            refine ⟨by simp, fun r h => ?_⟩
            cases h
            have hand : AndB (.branch .and al) := ⟨al, rfl, hal⟩
            exact ⟨_, rfl, all_snoc hnc (Or.inr (Or.inl hand)), _, by simp, Or.inr hand⟩
          · rename_i h1 h2
            have hal0 : al = [] := by
              apply List.eq_nil_of_length_eq_zero
              simp at h1 h2; omega
            rw [mkBranch_ok _ _ (Or.inr (Or.inr rfl))]
            refine ⟨by simp, fun r h => ?_⟩
            cases h
            rcases hprog' with h | h
            · exact ⟨_, rfl, hnc, h⟩
            · exact absurd hal0 h
      | cons child rest =>
        have hrest1 : ∀ x ∈ rest, ¬ x.isLeaf → S0 x := fun x hx => hcs x (by simp [hx])
        have hrest2 : ∀ x ∈ rest, x.isLeaf → x.ty ≠ .group := fun x hx => hty x (by simp [hx])
        -- progress carried by the rest of the children
        have restprog : (∃ x ∈ child :: rest, isSub x ∨ S0 x) → (isSub child ∨ S0 child) ∨ ∃ x ∈ rest, isSub x ∨ S0 x := by
          rintro ⟨x, hx, h⟩
          simp at hx
          rcases hx with rfl | hx
          · exact Or.inl h
          · exact Or.inr ⟨x, hx, h⟩
        simp only [groupAndLoop]
        split
        · -- a subgoal joins the and-list
          rename_i hsub
          have hchild : Elem child := by
            left
            cases child with
            | leaf ty s => simp [Token.ty] at hsub; subst hsub; trivial
            | branch ty cs' =>
              have := (hcs (.branch ty cs') (by simp) (fun h => h)).children.1
              subst this; simp [Token.ty] at hsub
          exact ih2 rest nc (al ++ [child]) hrest1 hrest2 hnc (all_snoc hal hchild) (Or.inr (Or.inl (by simp)))
        · split
          · -- a comma
            rename_i hns hcomma
            apply ih2 rest nc al hrest1 hrest2 hnc hal
            rcases hprog with h | h | h
            · exact Or.inl h
            · exact Or.inr (Or.inl h)
            · rcases restprog h with h | h
              · exfalso
                rcases h with h | h
                · exact hns (by simp [isSub_ty h])
                · cases child with
                  | leaf ty s => cases h
                  | branch ty cs' => have := h.children.1; subst this; simp [Token.ty] at hcomma
              · exact Or.inr (Or.inr h)
          · split
            · -- a semicolon: the and-list is closed
              rename_i hns hnc' hsemi
              have hsc : NCe child := by
                right; right
                cases child with
                | leaf ty s => simp [Token.ty] at hsemi; subst hsemi; exact ⟨s, rfl⟩
                | branch ty cs' =>
                  have := (hcs (.branch ty cs') (by simp) (fun h => h)).children.1
                  subst this; simp [Token.ty] at hsemi
              have hnotgood : ¬ (isSub child ∨ S0 child) := by
                rintro (h | h)
                · exact hns (by simp [isSub_ty h])
                · cases child with
                  | leaf ty s => cases h
                  | branch ty cs' => have := h.children.1; subst this; simp [Token.ty] at hsemi
              split
              · rename_i h1
                refine ih2 rest (nc ++ al ++ [child]) [] hrest1 hrest2 (all_snoc (all_app hnc (fun c hc => Or.inl (hal c hc))) hsc) (by simp) ?_
                left
                match al, h1, hal with
                | [a], _, hal => exact ⟨a, by simp, Or.inl (hal a (by simp))⟩
              · rw [mkBranch_ok _ _ (Or.inl rfl)]
                simp only [Res.bind]
                have hand : AndB (.branch .and al) := ⟨al, rfl, hal⟩
                refine ih2 rest (nc ++ [.branch .and al, child]) [] hrest1 hrest2 ?_ (by simp) ?_
                · apply all_app hnc
                  intro c hc; simp at hc
                  rcases hc with rfl | rfl
                  · exact Or.inr (Or.inl hand)
                  · exact hsc
                · left; exact ⟨.branch .and al, by simp, Or.inr hand⟩
            · split
              · -- a group: processed on its own, then joins the and-list
                rename_i hns hnc' hnsemi hgrp
                have hS0 : S0 child := by
                  cases child with
                  | leaf ty s => exact absurd (by simpa [Token.ty] using hgrp) (hty (.leaf ty s) (by simp) trivial)
                  | branch ty cs' => exact hcs _ (by simp) (fun h => h)
                obtain ⟨hA1, hA2⟩ := ih1 child hS0
                refine ⟨?_, ?_⟩
                · refine Res.bind_ne_panic hA1 (fun t1 ht1 => ?_)
                  cases fuel with
                  | zero => simp [groupAnd] at ht1
                  | succ fuel' =>
                    obtain ⟨hO1, hO2⟩ := groupOr_S1 fuel' t1 (hA2 t1 ht1)
                    refine Res.bind_ne_panic hO1 (fun t2 ht2 => ?_)
                    exact (ih2 rest nc (al ++ [t2]) hrest1 hrest2 hnc (all_snoc hal (Or.inr (hO2 t2 ht2))) (Or.inr (Or.inl (by simp)))).1
                · intro r hr
                  obtain ⟨t1, ht1, hr⟩ := Res.bind_eq_ok.mp hr
                  obtain ⟨t2, ht2, hr⟩ := Res.bind_eq_ok.mp hr
                  cases fuel with
                  | zero => simp [groupAnd] at ht1
                  | succ fuel' =>
                    obtain ⟨hO1, hO2⟩ := groupOr_S1 fuel' t1 (hA2 t1 ht1)
                    exact (ih2 rest nc (al ++ [t2]) hrest1 hrest2 hnc (all_snoc hal (Or.inr (hO2 t2 ht2))) (Or.inr (Or.inl (by simp)))).2 r hr
              · -- anything else is dropped
                rename_i hns hnc' hnsemi hngrp
                apply ih2 rest nc al hrest1 hrest2 hnc hal
                rcases hprog with h | h | h
                · exact Or.inl h
                · exact Or.inr (Or.inl h)
                · rcases restprog h with h | h
                  · exfalso
                    rcases h with h | h
                    · exact hns (by simp [isSub_ty h])
                    · cases child with
                      | leaf ty s => cases h
                      | branch ty cs' => have := h.children.1; subst this; simp [Token.ty] at hngrp
                  · exact Or.inr (Or.inr h)

/-! ### `group_tokens` on a token list in which every `(` is followed by a subgoal or another `(` -/

/-- what the tokenizer guarantees (proved below): all tokens are leaves, none carries the type of a branch, the
    first token and the token after every `(` is a subgoal or a `(` -/
structure TokOK (ts : List Token) : Prop where
  leaves : ∀ t ∈ ts, t.isLeaf ∧ t.ty ≠ .group
  first : ∃ t, ts[0]? = some t ∧ (t.ty = .lparen ∨ isSub t)
  after : ∀ k t, ts[k]? = some t → t.ty = .lparen → ∃ nx, ts[k + 1]? = some nx ∧ (nx.ty = .lparen ∨ isSub nx)

theorem groupTokens_S0 (ts : List Token) (hts : TokOK ts) : ∀ (fuel index : Nat) (acc : List Token),
    (∀ x ∈ acc, ¬ x.isLeaf → S0 x) → (∀ x ∈ acc, x.isLeaf → x.ty ≠ .group) →
    (match acc with
     | [] => ∃ t, ts[index]? = some t ∧ (t.ty = .lparen ∨ isSub t)
     | c :: _ => c.isLeaf → isSub c) →
    groupTokens ts fuel index acc ≠ .panic ∧ ∀ r, groupTokens ts fuel index acc = .ok r → S0 r.1 := by
  intro fuel
  induction fuel with
  | zero => intro index acc _ _ _; exact ⟨by simp [groupTokens], fun r h => by simp [groupTokens] at h⟩
  | succ fuel ih =>
    intro index acc h1 h2 h3
    have close : acc ≠ [] → makeBranchToken .group acc = .ok (.branch .group acc) ∧ S0 (.branch .group acc) := by
      intro hne
      refine ⟨mkBranch_ok _ _ (Or.inr (Or.inr rfl)), ?_⟩
      match acc, hne, h1, h2, h3 with
      | c :: rest, _, h1, h2, h3 => exact .mk h3 h1 h2
    simp only [groupTokens]
    split
    · -- the tokens are used up
      rename_i hnone
      have hne : acc ≠ [] := by
        intro h0; subst h0
        obtain ⟨t, ht, _⟩ := h3
        rw [hnone] at ht; cases ht
      obtain ⟨e, hs⟩ := close hne
      rw [e]
      exact ⟨by simp [Res.bind], fun r h => by simp [Res.bind] at h; subst h; exact hs⟩
    · rename_i token htok
      have hleaf := hts.leaves token (List.mem_of_getElem? htok)
      split
      · -- `(`: a group of its own
        rename_i hlp
        have hlp' : token.ty = .lparen := by simpa using hlp
        obtain ⟨nx, hnx, hnxty⟩ := hts.after index token htok hlp'
        obtain ⟨n1, n2⟩ := ih (index + 1) [] (by simp) (by simp) ⟨nx, hnx, hnxty⟩
        have cont : ∀ r1, groupTokens ts fuel (index + 1) [] = .ok r1 →
            groupTokens ts fuel (r1.2 + 1 + 1) (acc ++ [r1.1]) ≠ .panic ∧
            ∀ r, groupTokens ts fuel (r1.2 + 1 + 1) (acc ++ [r1.1]) = .ok r → S0 r.1 := by
          intro r1 hr1
          have hs := n2 r1 hr1
          have hnl : ¬ r1.1.isLeaf := by
            generalize r1.1 = x at hs
            cases hs; exact fun h => h
          apply ih
          · exact all_snoc h1 (fun _ => hs)
          · exact all_snoc h2 (fun h => absurd h hnl)
          · match acc, h3 with
            | [], _ => exact fun h => absurd h hnl
            | c :: rest, h3 => exact h3
        refine ⟨Res.bind_ne_panic n1 (fun r1 hr1 => (cont r1 hr1).1), fun r hr => ?_⟩
        obtain ⟨r1, hr1, hr⟩ := Res.bind_eq_ok.mp hr
        exact (cont r1 hr1).2 r hr
      · split
        · -- `)`: the group is complete
          rename_i hnlp hrp
          have hne : acc ≠ [] := by
            intro h0; subst h0
            obtain ⟨t, ht, hty⟩ := h3
            rw [htok] at ht; cases ht
            rcases hty with h | h
            · exact hnlp (by simp [h])
            · have := isSub_ty h; simp [this] at hrp
          obtain ⟨e, hs⟩ := close hne
          rw [e]
          exact ⟨by simp [Res.bind], fun r h => by simp [Res.bind] at h; subst h; exact hs⟩
        · -- any other token joins the group
          rename_i hnlp hnrp
          apply ih
          · exact all_snoc h1 (fun h => absurd hleaf.1 h)
          · exact all_snoc h2 (fun _ => hleaf.2)
          · match acc, h3 with
            | [], h3 =>
              obtain ⟨t, ht, hty⟩ := h3
              rw [htok] at ht; cases ht
              rcases hty with h | h
              · exact absurd (by simp [h]) hnlp
              · exact fun _ => h
            | c :: rest, h3 => exact h3

/-! ### the tokenizer produces such a list -/

theorem ws_not_letter (c : Char) (h : isWs c = true) : letterNumberHyphen c = false := by
  cases hl : letterNumberHyphen c with
  | false => rfl
  | true =>
    exfalso
    unfold isWs at h
    unfold letterNumberHyphen at hl
    simp only [Bool.or_eq_true, Bool.and_eq_true, decide_eq_true_eq, beq_iff_eq] at h hl
    have e1 : c = '_' → c.toNat = 95 := fun e => by subst e; rfl
    have e2 : c = '-' → c.toNat = 45 := fun e => by subst e; rfl
    have a1 : 'a'.toNat = 97 := rfl
    have a2 : 'z'.toNat = 122 := rfl
    have a3 : 'A'.toNat = 65 := rfl
    have a4 : 'Z'.toNat = 90 := rfl
    have a5 : '0'.toNat = 48 := rfl
    have a6 : '9'.toNat = 57 := rfl
    rw [a1, a2, a3, a4, a5, a6] at hl
    rcases hl with ((((((hl | hl) | hl) | hl) | hl) | hl) | hl) | hl
    all_goals (first | (have := e1 hl; omega) | (have := e2 hl; omega) | omega)

theorem ws_not_special (c : Char) (h : isWs c = true) : c ≠ '\\' ∧ c ≠ ',' ∧ c ≠ ';' ∧ c ≠ '(' ∧ c ≠ ')' ∧ c ≠ '"' ∧ c ≠ '[' ∧ c ≠ ']' := by
  refine ⟨?_, ?_, ?_, ?_, ?_, ?_, ?_, ?_⟩ <;> (intro e; subst e; revert h; decide)

/-- the first character that is not white space -/
def firstNonWs (x : Text) : Option Char := (x.dropWhile isWs).head?

theorem firstNonWs_append (x y : Text) :
    firstNonWs (x ++ y) = match firstNonWs x with | some d => some d | none => firstNonWs y := by
  unfold firstNonWs
  induction x with
  | nil => simp
  | cons a x ih =>
    simp only [List.cons_append, List.dropWhile]
    cases ha : isWs a with
    | true => simpa using ih
    | false => simp

theorem firstNonWs_cons_nonws (c : Char) (y : Text) (h : isWs c = false) : firstNonWs (c :: y) = some c := by
  simp [firstNonWs, List.dropWhile, h]

theorem firstNonWs_single (c : Char) : firstNonWs [c] = if isWs c then none else some c := by
  cases h : isWs c <;> simp [firstNonWs, List.dropWhile, h]

theorem dropWhile_snoc_keep (p : Char → Bool) (A : Text) (d : Char) (hd : p d = false) :
    (A ++ [d]).dropWhile p = A.dropWhile p ++ [d] := by
  induction A with
  | nil => simp [List.dropWhile, hd]
  | cons a A ih =>
    simp only [List.cons_append, List.dropWhile]
    cases p a <;> simp [ih]

/-- `trim` keeps the first character that is not white space in front -/
theorem trim_head (x : Text) (d : Char) (h : firstNonWs x = some d) : ∃ t, trim x = d :: t := by
  unfold firstNonWs at h
  unfold trim trimEnd trimStart
  cases hx : x.dropWhile isWs with
  | nil => rw [hx] at h; cases h
  | cons a rest =>
    rw [hx] at h; simp at h; subst h
    have hnw : isWs a = false := by
      have := List.head?_dropWhile_not isWs x
      rw [hx] at this
      simpa using this
    rw [List.reverse_cons, dropWhile_snoc_keep _ _ _ hnw, List.reverse_append]
    exact ⟨_, rfl⟩

theorem trim_all_ws (x : Text) (h : firstNonWs x = none) : trim x = [] := by
  unfold firstNonWs at h
  unfold trim trimEnd trimStart
  cases hx : x.dropWhile isWs with
  | nil => rfl
  | cons a rest => rw [hx] at h; cases h

def badFirst (d : Char) : Prop := d = ',' ∨ d = ';' ∨ d = '(' ∨ d = ')'

/-- a piece of text that does not start (white space aside) with a separator or a parenthesis is a subgoal token -/
theorem makeLeafToken_sub (x : Text) (h : ∀ d, firstNonWs x = some d → ¬ badFirst d) : isSub (makeLeafToken x) := by
  unfold makeLeafToken
  simp only
  cases hf : firstNonWs x with
  | none => rw [trim_all_ws x hf]; exact trivial
  | some d =>
    obtain ⟨t, ht⟩ := trim_head x d hf
    have hb := h d hf
    rw [ht]
    have n1 : (d :: t == [',']) = false := by
      cases t with
      | nil => simp; intro e; exact hb (Or.inl e)
      | cons _ _ => simp
    have n2 : (d :: t == [';']) = false := by
      cases t with
      | nil => simp; intro e; exact hb (Or.inr (Or.inl e))
      | cons _ _ => simp
    have n3 : (d :: t == ['(']) = false := by
      cases t with
      | nil => simp; intro e; exact hb (Or.inr (Or.inr (Or.inl e)))
      | cons _ _ => simp
    have n4 : (d :: t == [')']) = false := by
      cases t with
      | nil => simp; intro e; exact hb (Or.inr (Or.inr (Or.inr e)))
      | cons _ _ => simp
    simp only [n1, n2, n3, n4, Bool.false_eq_true, if_false]
    exact trivial

/-- every token the tokenizer makes is a leaf and carries none of the branch types -/
theorem makeLeafToken_leaf (x : Text) : (makeLeafToken x).isLeaf ∧ (makeLeafToken x).ty ≠ .group := by
  unfold makeLeafToken
  simp only
  repeat' split
  all_goals exact ⟨trivial, by simp [Token.ty]⟩

/-- a piece of text that contains a `)` is not the token `(` -/
theorem makeLeafToken_not_lparen (x : Text) (h : ')' ∈ x) : (makeLeafToken x).ty ≠ .lparen := by
  have hm : ')' ∈ trim x := mem_trim h (by decide)
  unfold makeLeafToken
  simp only
  repeat' split
  all_goals first
    | (simp [Token.ty]; done)
    | (rename_i h3; exfalso; simp at h3; rw [h3] at hm; simp at hm)

/-- `chrs[a..b]` -/
def seg (s : Text) (a b : Nat) : Text := (s.take b).drop a

theorem slice_seg {s x : Text} {a b : Nat} (h : slice s a b = .ok x) : x = seg s a b := by
  unfold slice at h; split at h
  · cases h; rfl
  · cases h

theorem seg_self (s : Text) (a : Nat) : seg s a a = [] := by
  unfold seg; simp [List.drop_eq_nil_iff, List.length_take]

theorem seg_extend (s : Text) {a b b' : Nat} (h1 : a ≤ b) (h2 : b ≤ b') (h3 : b ≤ s.length) :
    seg s a b' = seg s a b ++ seg s b b' := by
  unfold seg
  have e : s.take b' = s.take b ++ (s.take b').drop b := by
    have := List.take_append_drop b (s.take b')
    rw [List.take_take, Nat.min_eq_left h2] at this
    exact this.symm
  conv => lhs; rw [e]
  rw [List.drop_append_of_le_length (by simp [List.length_take]; omega)]

theorem seg_one (s : Text) (i : Nat) (ch : Char) (h : s[i]? = some ch) : seg s i (i + 1) = [ch] := by
  unfold seg
  have hi : i < s.length := by
    rcases Nat.lt_or_ge i s.length with h' | h'
    · exact h'
    · have : s[i]? = none := by simp; omega
      rw [this] at h; cases h
  have hg : s[i] = ch := by
    have := List.getElem?_eq_getElem hi
    rw [this] at h; cases h; rfl
  rw [List.take_succ_eq_append_getElem hi, List.drop_append_of_le_length (by simp [List.length_take]; omega)]
  simp [List.drop_eq_nil_iff, List.length_take, hg]

theorem seg_head (s : Text) (i b : Nat) (ch : Char) (h : s[i]? = some ch) (hb : i + 1 ≤ b) :
    seg s i b = ch :: seg s (i + 1) b := by
  have hi : i < s.length := by
    rcases Nat.lt_or_ge i s.length with h' | h'
    · exact h'
    · have : s[i]? = none := by simp; omega
      rw [this] at h; cases h
  rw [seg_extend s (Nat.le_succ i) hb (by omega), seg_one s i ch h]; rfl

theorem seg_mem_mono (s : Text) {a b b' : Nat} {c : Char} (h : b ≤ b') (hc : c ∈ seg s a b) : c ∈ seg s a b' := by
  unfold seg at *
  have hp : (s.take b) <+: (s.take b') := by
    rw [← Nat.min_eq_left h, ← List.take_take]; exact List.take_prefix _ _
  obtain ⟨t, ht⟩ := hp
  rw [← ht]
  rcases Nat.lt_or_ge (s.take b).length a with hl | hl
  · rw [List.drop_eq_nil_of_le (Nat.le_of_lt hl)] at hc; cases hc
  · rw [List.drop_append_of_le_length hl]; exact List.mem_append_left _ hc

theorem seg_beyond (s : Text) (a b : Nat) (h : s.length ≤ b) : seg s a b = seg s a s.length := by
  unfold seg; rw [List.take_of_length_le h, List.take_of_length_le (Nat.le_refl _)]

/-- the tokens emitted so far: leaves; the first one and the one after every `(` is a subgoal or a `(` -/
structure TK (ts : List Token) : Prop where
  leaves : ∀ t ∈ ts, t.isLeaf ∧ t.ty ≠ .group
  first : ∀ t, ts[0]? = some t → (t.ty = .lparen ∨ isSub t)
  after : ∀ k t nx, ts[k]? = some t → ts[k + 1]? = some nx → t.ty = .lparen → (nx.ty = .lparen ∨ isSub nx)

def lastLP (ts : List Token) : Prop := ∃ t, ts.getLast? = some t ∧ t.ty = .lparen

theorem TK.snoc {ts : List Token} (h : TK ts) (a : Token) (hl : a.isLeaf ∧ a.ty ≠ .group)
    (h0 : ts = [] → (a.ty = .lparen ∨ isSub a)) (h1 : lastLP ts → (a.ty = .lparen ∨ isSub a)) : TK (ts ++ [a]) := by
  refine ⟨?_, ?_, ?_⟩
  · intro t ht
    rcases List.mem_append.mp ht with h' | h'
    · exact h.leaves t h'
    · simp at h'; subst h'; exact hl
  · intro t ht
    cases ts with
    | nil => simp at ht; subst ht; exact h0 rfl
    | cons b rest => simp at ht; subst ht; exact h.first _ (by simp)
  · intro k t nx hk hk1 hlp
    rcases Nat.lt_or_ge (k + 1) ts.length with hlt | hge
    · rw [List.getElem?_append_left (by omega)] at hk
      rw [List.getElem?_append_left hlt] at hk1
      exact h.after k t nx hk hk1 hlp
    · have hk1' : k + 1 = ts.length := by
        rcases Nat.lt_or_ge ts.length (k + 1) with h2 | h2
        · have : (ts ++ [a])[k + 1]? = none := by simp; omega
          rw [this] at hk1; cases hk1
        · omega
      rw [List.getElem?_append_left (by omega)] at hk
      have : nx = a := by
        rw [hk1', List.getElem?_append_right (Nat.le_refl _)] at hk1
        simpa using hk1.symm
      subst this
      apply h1
      refine ⟨t, ?_, hlp⟩
      rw [List.getLast?_eq_getElem?]
      have : ts.length - 1 = k := by omega
      rw [this]; exact hk

theorem lastLP_snoc (ts : List Token) (a : Token) : lastLP (ts ++ [a]) ↔ a.ty = .lparen := by
  unfold lastLP; simp

/-- the condition on a piece of text that began at a fresh `start_index`: either it is white space so far and the
    tokenizer is outside complex terms and lists (so the next separator or parenthesis will be acted on), or its
    first character proper is not a separator or parenthesis -/
def FreshCond (x : Text) (stack : List TokTy) (prev : Char) : Prop :=
  match firstNonWs x with
  | none => peek stack ≠ .complex ∧ peek stack ≠ .linkedList ∧ prev ≠ '\\' ∧ letterNumberHyphen prev = false
  | some d => ¬ badFirst d

/-- invariant of the tokenizer loop; `F` (ghost) = `start_index` was set after the last `)` of a group -/
structure TInv (s : Text) (i : Nat) (st : TokSt) (F : Bool) : Prop where
  le : st.start ≤ i
  tk : TK st.tokens
  lastlp : lastLP st.tokens → F = true ∧ TokTy.group ∈ st.stack
  empty : st.tokens = [] → F = true ∧ st.start = 0
  fresh : F = true → FreshCond (seg s st.start i) st.stack st.prev
  junk : F = false → ')' ∈ seg s st.start i

/-- a step that emits nothing -/
theorem TInv.extend {s : Text} {i i' : Nat} {st st' : TokSt} {F : Bool} (h : TInv s i st F)
    (hi : i ≤ i') (hlen : i ≤ s.length) (htok : st'.tokens = st.tokens) (hstart : st'.start = st.start)
    (hstk : TokTy.group ∈ st.stack → TokTy.group ∈ st'.stack)
    (hf : F = true → firstNonWs (seg s st.start i) = none →
          (peek st.stack ≠ .complex ∧ peek st.stack ≠ .linkedList ∧ st.prev ≠ '\\' ∧ letterNumberHyphen st.prev = false) →
          FreshCond (seg s i i') st'.stack st'.prev) : TInv s i' st' F := by
  refine ⟨by rw [hstart]; exact Nat.le_trans h.le hi, by rw [htok]; exact h.tk, ?_, ?_, ?_, ?_⟩
  · intro hl; rw [htok] at hl; exact ⟨(h.lastlp hl).1, hstk (h.lastlp hl).2⟩
  · intro he; rw [htok] at he; rw [hstart]; exact h.empty he
  · intro hF
    have old := h.fresh hF
    rw [hstart, seg_extend s h.le hi hlen]
    unfold FreshCond at old ⊢
    rw [firstNonWs_append]
    cases hx : firstNonWs (seg s st.start i) with
    | some d => rw [hx] at old; exact old
    | none => rw [hx] at old; exact hf hF hx old
  · intro hF; rw [hstart]; exact seg_mem_mono s hi (h.junk hF)

/-- the token made of `chrs[start_index..i]` -/
theorem TInv.emit {s : Text} {i : Nat} {st : TokSt} {F : Bool} (h : TInv s i st F) :
    let a := makeLeafToken (seg s st.start i)
    (a.isLeaf ∧ a.ty ≠ .group) ∧ a.ty ≠ .lparen ∧ (F = true → isSub a) := by
  intro a
  have hsub : F = true → isSub a := by
    intro hF
    apply makeLeafToken_sub
    intro d hd
    have := h.fresh hF
    unfold FreshCond at this
    rw [hd] at this; exact this
  refine ⟨makeLeafToken_leaf _, ?_, hsub⟩
  cases hF : F with
  | true => rw [isSub_ty (hsub hF)]; simp
  | false => exact makeLeafToken_not_lparen _ (h.junk hF)

theorem TInv.tk_emit {s : Text} {i : Nat} {st : TokSt} {F : Bool} (h : TInv s i st F) :
    TK (st.tokens ++ [makeLeafToken (seg s st.start i)]) := by
  obtain ⟨h1, _, h3⟩ := h.emit
  exact h.tk.snoc _ h1 (fun he => Or.inr (h3 (h.empty he).1)) (fun hl => Or.inr (h3 (h.lastlp hl).1))

theorem leaf_lits : makeLeafToken ['('] = .leaf .lparen ['('] ∧ makeLeafToken [')'] = .leaf .rparen [')'] ∧
    makeLeafToken [','] = .leaf .comma [','] ∧ makeLeafToken [';'] = .leaf .semicolon [';'] := by
  refine ⟨?_, ?_, ?_, ?_⟩ <;> rfl

theorem mem_drop_one {stk : List TokTy} (h : TokTy.group ∈ stk) (hp : peek stk ≠ .group) : TokTy.group ∈ stk.drop 1 := by
  cases stk with
  | nil => cases h
  | cons a rest =>
    simp [peek] at hp
    simp at h ⊢
    rcases h with h | h
    · exact absurd h.symm hp
    · exact h

theorem TK.done {ts : List Token} (h : TK ts) (hne : ts ≠ []) (hl : ¬ lastLP ts) : TokOK ts := by
  refine ⟨h.leaves, ?_, ?_⟩
  · cases ts with
    | nil => exact absurd rfl hne
    | cons a rest => exact ⟨a, by simp, h.first a (by simp)⟩
  · intro k t hk hlp
    rcases Nat.lt_or_ge (k + 1) ts.length with hlt | hge
    · have : ts[k + 1]? = some ts[k + 1] := List.getElem?_eq_getElem hlt
      exact ⟨_, this, h.after k t _ hk this hlp⟩
    · exfalso
      apply hl
      refine ⟨t, ?_, hlp⟩
      have hk' : k < ts.length := by
        rcases Nat.lt_or_ge k ts.length with h' | h'
        · exact h'
        · have : ts[k]? = none := by simp; omega
          rw [this] at hk; cases hk
      rw [List.getLast?_eq_getElem?]
      have : ts.length - 1 = k := by omega
      rw [this]; exact hk

theorem peek_cons (a : TokTy) (l : List TokTy) : peek (a :: l) = a := rfl

/-- the tokenizer's output satisfies `TokOK` -/
theorem tokLoop_TokOK (s : Text) (hs : s ≠ []) : ∀ (fuel i : Nat) (st : TokSt) (F : Bool) (ts : List Token),
    TInv s i st F → tokLoop s fuel i st = .ok ts → TokOK ts := by
  intro fuel
  induction fuel with
  | zero => intro i st F ts _ h; simp [tokLoop] at h
  | succ fuel ih =>
    intro i st F ts hinv h
    simp only [tokLoop] at h
    split at h
    · -- after the loop
      rename_i hnone
      have hi : s.length ≤ i := by
        rcases Nat.lt_or_ge i s.length with h' | h'
        · have : s[i]? = some s[i] := List.getElem?_eq_getElem h'
          rw [this] at hnone; cases hnone
        · exact h'
      split at h
      · cases h
      · rename_i hstk
        have hempty : st.stack = [] := by simpa using hstk
        have hnl : ¬ lastLP st.tokens := fun hl => by
          have := (hinv.lastlp hl).2; rw [hempty] at this; cases this
        split at h
        · obtain ⟨sub, hsub, h⟩ := Res.bind_eq_ok.mp h
          cases h
          have e : sub = seg s st.start i := by rw [slice_seg hsub, seg_beyond s _ i hi]
          rw [e]
          refine hinv.tk_emit.done (by simp) ?_
          rw [lastLP_snoc]; exact hinv.emit.2.1
        · rename_i hpos
          cases h
          refine hinv.tk.done ?_ hnl
          intro he
          have := (hinv.empty he).2
          have hl : 0 < s.length := List.length_pos_iff.mpr hs
          omega
    · rename_i ch hch
      have hi : i < s.length := by
        rcases Nat.lt_or_ge i s.length with h' | h'
        · exact h'
        · have : s[i]? = none := by simp; omega
          rw [this] at hch; cases hch
      have hone := seg_one s i ch hch
      -- a step that emits nothing and leaves the stack alone or pushes on it
      have plain : ∀ (i' : Nat) (st' : TokSt), tokLoop s fuel i' st' = .ok ts → i + 1 ≤ i' → st'.tokens = st.tokens → st'.start = st.start →
          (TokTy.group ∈ st.stack → TokTy.group ∈ st'.stack) →
          (F = true → firstNonWs (seg s st.start i) = none →
            (peek st.stack ≠ .complex ∧ peek st.stack ≠ .linkedList ∧ st.prev ≠ '\\' ∧ letterNumberHyphen st.prev = false) →
            (isWs ch = false ∧ ¬ badFirst ch) ∨
            (isWs ch = true ∧ i' = i + 1 ∧ peek st'.stack ≠ .complex ∧ peek st'.stack ≠ .linkedList ∧ st'.prev ≠ '\\' ∧ letterNumberHyphen st'.prev = false)) →
          TokOK ts := by
        intro i' st' hrun hi' htok hstart hstk hf
        refine ih i' st' F ts (hinv.extend (by omega) (by omega) htok hstart hstk ?_) hrun
        intro hF hx hold
        unfold FreshCond
        rw [seg_head s i i' ch hch hi']
        rcases hf hF hx hold with ⟨hw, hb⟩ | ⟨hw, rfl, hrest⟩
        · rw [firstNonWs_cons_nonws _ _ hw]; exact hb
        · rw [seg_self]
          rw [firstNonWs_single, if_pos hw]
          exact hrest
      -- a step that emits the current piece and a separator or parenthesis, and starts a new piece
      split at h
      · -- a quotation mark: skip to its partner
        rename_i hq
        have hq' : ch = '"' := by
          unfold noEsc at hq; simp at hq; exact hq.2
        have hfq : isWs ch = false ∧ ¬ badFirst ch := ⟨by rw [hq']; decide, by rw [hq']; unfold badFirst; decide⟩
        split at h
        · rename_i j hj
          have := findQuote_ge _ _ _ _ hj
          exact plain (j + 1) _ h (by omega) rfl rfl (fun x => x) (fun _ _ _ => Or.inl hfq)
        · exact plain (i + 1) _ h (Nat.le_refl _) rfl rfl (fun x => x) (fun _ _ _ => Or.inl hfq)
      split at h
      · -- `(`
        rename_i hnq hlp
        have hch' : ch = '(' := by unfold noEsc at hlp; simp at hlp; exact hlp.2
        split at h
        · -- the parenthesis of a complex term
          rename_i hletter
          refine plain (i + 1) _ h (Nat.le_refl _) rfl rfl (fun x => List.mem_cons_of_mem _ x) ?_
          intro _ _ hold
          exact absurd hletter (by rw [hold.2.2.2]; simp)
        · -- a group opens: `(` is a token, a new piece starts
          rename_i hletter
          refine ih (i + 1) _ true ts ?_ h
          have htk : TK (st.tokens ++ [makeLeafToken ['(']]) := by
            rw [leaf_lits.1]
            exact hinv.tk.snoc _ ⟨trivial, by simp [Token.ty]⟩ (fun _ => Or.inl rfl) (fun _ => Or.inl rfl)
          refine ⟨Nat.le_refl _, htk, (fun _ => ⟨rfl, by simp⟩), (fun he => by simp at he), ?_, (fun hF => by cases hF)⟩
          intro _
          unfold FreshCond
          rw [seg_self]
          simp only [firstNonWs, List.dropWhile, List.head?]
          rw [hch']
          exact ⟨by simp [peek_cons], by simp [peek_cons], by decide, by decide⟩
      split at h
      · -- `)`
        rename_i hnq hnlp hrp
        have hch' : ch = ')' := by unfold noEsc at hrp; simp at hrp; exact hrp.2
        split at h
        · cases h
        · rename_i hne
          split at h
          · -- the group closes: the current piece and `)` are tokens; what follows is left over
            rename_i hgrp
            obtain ⟨sub, hsub, h⟩ := Res.bind_eq_ok.mp h
            have e : sub = seg s st.start i := slice_seg hsub
            refine ih (i + 1) _ false ts ?_ h
            have htk1 := hinv.tk_emit
            have htk : TK (st.tokens ++ [makeLeafToken sub, makeLeafToken [')']]) := by
              rw [e, leaf_lits.2.1]
              have := htk1.snoc (.leaf .rparen [')']) ⟨trivial, by simp [Token.ty]⟩ (fun he => by simp at he)
                (fun hl => by rw [lastLP_snoc] at hl; exact absurd hl hinv.emit.2.1)
              simpa using this
            refine ⟨(by simp; exact Nat.le_trans hinv.le (Nat.le_succ _)), htk, ?_, (fun he => by simp at he), (fun hF => by cases hF), ?_⟩
            · intro hl
              exfalso
              have : lastLP ((st.tokens ++ [makeLeafToken sub]) ++ [makeLeafToken [')']]) := by simpa using hl
              rw [lastLP_snoc, leaf_lits.2.1] at this
              simp [Token.ty] at this
            · intro _
              simp only
              rw [seg_extend s hinv.le (Nat.le_succ i) (by omega), hone, hch']
              simp
          · split at h
            · cases h
            · -- the parenthesis of a complex term closes
              rename_i hngrp hcx
              have hcx' : peek st.stack = .complex := by simpa using hcx
              refine plain (i + 1) _ h (Nat.le_refl _) rfl rfl (fun x => mem_drop_one x (by rw [hcx']; simp)) ?_
              intro _ _ hold
              exact absurd hcx' hold.1
      split at h
      · -- `[`
        rename_i hnq hnlp hnrp hlb
        have hch' : ch = '[' := by unfold noEsc at hlb; simp at hlb; exact hlb.2
        refine plain (i + 1) _ h (Nat.le_refl _) rfl rfl (fun x => List.mem_cons_of_mem _ x) ?_
        intro _ _ _
        exact Or.inl ⟨by rw [hch']; decide, by rw [hch']; unfold badFirst; decide⟩
      split at h
      · -- `]`
        rename_i hnq hnlp hnrp hnlb hrb
        split at h
        · cases h
        · split at h
          · cases h
          · rename_i hne hll
            have hll' : peek st.stack = .linkedList := by simpa using hll
            refine plain (i + 1) _ h (Nat.le_refl _) rfl rfl (fun x => mem_drop_one x (by rw [hll']; simp)) ?_
            intro _ _ hold
            exact absurd hll' hold.2.1
      -- any other character
      rename_i hnq hnlp hnrp hnlb hnrb
      -- with the previous character not a backslash, `ch` is none of the characters handled above
      have notspecial : st.prev ≠ '\\' → ch ≠ '(' ∧ ch ≠ ')' := by
        intro hp
        unfold noEsc at hnlp hnrp
        simp [hp] at hnlp hnrp
        exact ⟨hnlp, hnrp⟩
      split at h
      · rename_i htop
        split at h
        · cases h
        · split at h
          · -- `,`: the current piece and `,` are tokens, a new piece starts
            rename_i hninv hcomma
            obtain ⟨sub, hsub, h⟩ := Res.bind_eq_ok.mp h
            have e : sub = seg s st.start i := slice_seg hsub
            refine ih (i + 1) _ true ts ?_ h
            have htk : TK (st.tokens ++ [makeLeafToken sub, makeLeafToken [',']]) := by
              rw [e, leaf_lits.2.2.1]
              have := hinv.tk_emit.snoc (.leaf .comma [',']) ⟨trivial, by simp [Token.ty]⟩ (fun he => by simp at he)
                (fun hl => by rw [lastLP_snoc] at hl; exact absurd hl hinv.emit.2.1)
              simpa using this
            have hch' : ch = ',' := by unfold noEsc at hcomma; simp at hcomma; exact hcomma.2
            refine ⟨Nat.le_refl _, htk, ?_, (fun he => by simp at he), ?_, (fun hF => by cases hF)⟩
            · intro hl
              exfalso
              have : lastLP ((st.tokens ++ [makeLeafToken sub]) ++ [makeLeafToken [',']]) := by simpa using hl
              rw [lastLP_snoc, leaf_lits.2.2.1] at this
              simp [Token.ty] at this
            · intro _
              unfold FreshCond
              rw [seg_self]
              simp only [firstNonWs, List.dropWhile, List.head?]
              simp at htop
              rw [hch']
              exact ⟨htop.1, htop.2, by decide, by decide⟩
          · split at h
            · -- `;`
              rename_i hninv hncomma hsemi
              obtain ⟨sub, hsub, h⟩ := Res.bind_eq_ok.mp h
              have e : sub = seg s st.start i := slice_seg hsub
              refine ih (i + 1) _ true ts ?_ h
              have htk : TK (st.tokens ++ [makeLeafToken sub, makeLeafToken [';']]) := by
                rw [e, leaf_lits.2.2.2]
                have := hinv.tk_emit.snoc (.leaf .semicolon [';']) ⟨trivial, by simp [Token.ty]⟩ (fun he => by simp at he)
                  (fun hl => by rw [lastLP_snoc] at hl; exact absurd hl hinv.emit.2.1)
                simpa using this
              have hch' : ch = ';' := by unfold noEsc at hsemi; simp at hsemi; exact hsemi.2
              refine ⟨Nat.le_refl _, htk, ?_, (fun he => by simp at he), ?_, (fun hF => by cases hF)⟩
              · intro hl
                exfalso
                have : lastLP ((st.tokens ++ [makeLeafToken sub]) ++ [makeLeafToken [';']]) := by simpa using hl
                rw [lastLP_snoc, leaf_lits.2.2.2] at this
                simp [Token.ty] at this
              · intro _
                unfold FreshCond
                rw [seg_self]
                simp only [firstNonWs, List.dropWhile, List.head?]
                simp at htop
                rw [hch']
                exact ⟨htop.1, htop.2, by decide, by decide⟩
            · -- an ordinary character outside complex terms and lists
              rename_i hninv hncomma hnsemi
              refine plain (i + 1) _ h (Nat.le_refl _) rfl rfl (fun x => x) ?_
              intro _ _ hold
              have hp := hold.2.2.1
              obtain ⟨n1, n2⟩ := notspecial hp
              have n3 : ch ≠ ',' := by unfold noEsc at hncomma; simp [hp] at hncomma; exact hncomma
              have n4 : ch ≠ ';' := by unfold noEsc at hnsemi; simp [hp] at hnsemi; exact hnsemi
              cases hw : isWs ch with
              | false =>
                left
                refine ⟨rfl, ?_⟩
                unfold badFirst
                rintro (e | e | e | e)
                · exact n3 e
                · exact n4 e
                · exact n1 e
                · exact n2 e
              | true =>
                right
                have := ws_not_special ch hw
                exact ⟨rfl, rfl, hold.1, hold.2.1, this.1, ws_not_letter ch hw⟩
      · -- an ordinary character inside a complex term or a list
        rename_i htop
        refine plain (i + 1) _ h (Nat.le_refl _) rfl rfl (fun x => x) ?_
        intro _ _ hold
        exfalso
        simp at htop
        by_cases hc : peek st.stack = .complex
        · exact hold.1 hc
        · exact hold.2.1 (htop hc)

theorem tokenize_TokOK (s : Text) (ts : List Token) (h : tokenize s = .ok ts) : TokOK ts := by
  unfold tokenize at h
  simp only at h
  split at h
  · cases h
  · rename_i hne
    refine tokLoop_TokOK (trim s) (by intro e; rw [e] at hne; simp at hne) _ 0 {} true ts ?_ h
    refine ⟨Nat.le_refl _, ⟨by simp, by simp, by simp⟩, ?_, (fun _ => ⟨rfl, rfl⟩), ?_, (fun hF => by cases hF)⟩
    · rintro ⟨t, ht, _⟩; simp at ht
    · intro _
      unfold FreshCond
      rw [seg_self]
      simp only [firstNonWs, List.dropWhile, List.head?]
      exact ⟨by simp [peek], by simp [peek], by decide, by decide⟩

/-- the grouping stage of `generate_goal` never panics -/
theorem generateGoal_ne_panic (po : POps) (hsub : ∀ f s, parseSubgoal po f s ≠ .panic) (f : Nat) (s : Text) :
    generateGoal po f s ≠ .panic := by
  unfold generateGoal
  refine Res.bind_ne_panic (tokenize_ne_panic' s) (fun ts hts => ?_)
  have hok := tokenize_TokOK s ts hts
  obtain ⟨g1, g2⟩ := groupTokens_S0 ts hok (ts.length + 2) 0 [] (by simp) (by simp) hok.first
  refine Res.bind_ne_panic g1 (fun t0 ht0 => ?_)
  have hS0 := g2 t0 ht0
  obtain ⟨a1, a2⟩ := (groupAnd_S0 f).1 t0.1 hS0
  refine Res.bind_ne_panic a1 (fun t1 ht1 => ?_)
  cases f with
  | zero => simp [groupAnd] at ht1
  | succ f' =>
    obtain ⟨o1, o2⟩ := groupOr_S1 f' t1 (a2 t1 ht1)
    refine Res.bind_ne_panic o1 (fun t2 ht2 => ?_)
    exact (tree_ne_panic po hsub (f' + 1)).1 t2 (o2 t2 ht2).np

theorem indexOfNeck_bound : ∀ (rest : Text) (i : Nat) (pc iq : Bool) (k : Nat),
    indexOfNeck rest i pc iq = some k → (pc = true → 1 ≤ i) → k + 2 ≤ i + rest.length := by
  intro rest
  induction rest with
  | nil => intro i pc iq k h; simp [indexOfNeck] at h
  | cons ch rest ih =>
    intro i pc iq k h hpc
    simp only [indexOfNeck] at h
    split at h
    · have := ih (i + 1) _ _ k h (fun hf => by cases hf)
      simp only [List.length_cons]; omega
    split at h
    · have := ih (i + 1) _ _ k h (fun hf => by cases hf)
      simp only [List.length_cons]; omega
    split at h
    · rename_i _ _ hc
      simp at hc
      cases h
      have := hpc hc.2
      simp only [List.length_cons]; omega
    · have := ih (i + 1) _ _ k h (fun _ => by omega)
      simp only [List.length_cons]; omega

/-- `parse_rule` never panics -/
theorem parseRule_ne_panic (po : POps) (hsub : ∀ f s, parseSubgoal po f s ≠ .panic)
    (hcx : ∀ f s, parseComplex po f s ≠ .panic) (f : Nat) (s : Text) : parseRule po f s ≠ .panic := by
  unfold parseRule
  simp only
  split
  · simp
  · generalize (if (trim s).getLast? == some '.' then (trim s).dropLast else trim s) = chrs
    split
    · rename_i index hidx
      have hb := indexOfNeck_bound chrs 0 false false index hidx (by simp)
      refine Res.bind_ne_panic (slice_ne_panic (by omega) (by omega)) (fun hd _ => ?_)
      refine Res.bind_ne_panic (slice_ne_panic (by omega) (Nat.le_refl _)) (fun bd _ => ?_)
      split
      · simp
      · refine Res.bind_ne_panic (hsub _ _) (fun sg _ => ?_)
        split
        · exact Res.bind_ne_panic (generateGoal_ne_panic po hsub _ _) (fun _ _ => by simp)
        · simp
    · exact Res.bind_ne_panic (hcx _ _) (fun _ _ => by simp)

end Suiron.Parse
