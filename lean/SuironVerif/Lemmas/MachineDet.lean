/-
  The reference machine of `Spec/PureMachine.lean` is deterministic: a configuration has at most one
  successor, whatever fuel the unification and built-in models are given; hence the sequence of answers
  (with the text written) it shows from a configuration is unique.
-/
import SuironVerif.Spec.PureMachine
import SuironVerif.Lemmas.FuelMono
namespace Suiron.Spec
open Suiron

/-- nothing left to do silently: the stack is empty, or an answer is on top -/
def Final (c : PConf) : Prop := c.stack = [] ∨ ∃ σ S, c.stack = .goals [] σ :: S

theorem PStep.not_final {fo : FloatOps} {kb : KB} {a b : PConf} (h : PStep fo kb a b) : ¬ Final a := by
  intro hf
  rcases hf with hf | ⟨σ, S, hf⟩ <;> cases h <;> simp at hf

theorem PStep.det {fo : FloatOps} {kb : KB} {a b : PConf} (h : PStep fo kb a b) : ∀ {b'}, PStep fo kb a b' → b = b' := by
  induction h with
  | call hk => intro b' h'; cases h' with | call hk' => rw [hk] at hk'; cases hk'; rfl
  | @bipOk name args k σ σ' S c o f txt hn hr =>
    intro b' h'
    cases h' with
    | @bipOk _ _ _ _ σ'' _ _ _ f' txt' _ hr' =>
      have := runBip_unique fo name (optList args) σ f f' (by rw [hr]; simp) (by rw [hr']; simp)
      rw [hr, hr'] at this; cases this; rfl
    | @bipFail _ _ _ _ _ _ _ f' txt' _ hr' =>
      have := runBip_unique fo name (optList args) σ f f' (by rw [hr]; simp) (by rw [hr']; simp)
      rw [hr, hr'] at this; cases this
  | @bipFail name args k σ S c o f txt hn hr =>
    intro b' h'
    cases h' with
    | @bipOk _ _ _ _ σ'' _ _ _ f' txt' _ hr' =>
      have := runBip_unique fo name (optList args) σ f f' (by rw [hr]; simp) (by rw [hr']; simp)
      rw [hr, hr'] at this; cases this
    | @bipFail _ _ _ _ _ _ _ f' txt' _ hr' =>
      have := runBip_unique fo name (optList args) σ f f' (by rw [hr]; simp) (by rw [hr']; simp)
      rw [hr, hr'] at this; cases this; rfl
  | conj => intro b' h'; cases h'; rfl
  | disj => intro b' h'; cases h'; rfl
  | @clauseOk t σ σ' idx n k S c o key rule c' f hk hg hu =>
    intro b' h'
    cases h' with
    | @clauseOk _ _ σ'' _ _ _ _ _ _ key' rule' c'' f' hk' hg' hu' =>
      rw [hk] at hk'; cases hk'
      rw [hg] at hg'; cases hg'
      have := unify_unique fo rule.head t σ f f' (by rw [hu]; simp) (by rw [hu']; simp)
      rw [hu, hu'] at this; cases this; rfl
    | @clauseFail _ _ _ _ _ _ _ _ key' rule' c'' f' hk' hg' hu' =>
      rw [hk] at hk'; cases hk'
      rw [hg] at hg'; cases hg'
      have := unify_unique fo rule.head t σ f f' (by rw [hu]; simp) (by rw [hu']; simp)
      rw [hu, hu'] at this; cases this
  | @clauseFail t σ idx n k S c o key rule c' f hk hg hu =>
    intro b' h'
    cases h' with
    | @clauseOk _ _ σ'' _ _ _ _ _ _ key' rule' c'' f' hk' hg' hu' =>
      rw [hk] at hk'; cases hk'
      rw [hg] at hg'; cases hg'
      have := unify_unique fo rule.head t σ f f' (by rw [hu]; simp) (by rw [hu']; simp)
      rw [hu, hu'] at this; cases this
    | @clauseFail _ _ _ _ _ _ _ _ key' rule' c'' f' hk' hg' hu' => rfl
  | notEnter => intro b' h'; cases h'; rfl
  | notIn hs ih =>
    intro b' h'
    cases h' with
    | notIn hs' => have := ih hs'; cases this; rfl
    | notOk => exact absurd (Or.inl rfl) hs.not_final
    | notFail => exact absurd (Or.inr ⟨_, _, rfl⟩) hs.not_final
  | notOk =>
    intro b' h'
    cases h' with
    | notIn hs' => exact absurd (Or.inl rfl) hs'.not_final
    | notOk => rfl
  | notFail =>
    intro b' h'
    cases h' with
    | notIn hs' => exact absurd (Or.inr ⟨_, _, rfl⟩) hs'.not_final
    | notFail => rfl

/-- two silent runs from one configuration that both end where nothing is left to do end in the same place -/
theorem PSteps.det {fo : FloatOps} {kb : KB} {a b : PConf} (h : PSteps fo kb a b) : ∀ {b'}, PSteps fo kb a b' → Final b → Final b' → b = b' := by
  induction h with
  | refl =>
    intro b' h' hf _
    cases h' with
    | refl => rfl
    | step hs _ => exact absurd hf hs.not_final
  | step hs _ ih =>
    intro b' h' hf hf'
    cases h' with
    | refl => exact absurd hf' hs.not_final
    | step hs' ht' => have := hs.det hs'; subst this; exact ih ht' hf hf'

/-- THE run: what the machine shows from a configuration is unique — any two observation sequences agree
    position by position. -/
theorem MRun.det {fo : FloatOps} {kb : KB} {c : PConf} {tr : List (Option Subst × List String)} (h : MRun fo kb c tr) :
    ∀ {tr' : List (Option Subst × List String)}, MRun fo kb c tr' → ∀ (i : Nat) x y, tr[i]? = some x → tr'[i]? = some y → x = y := by
  induction h with
  | nil => intro tr' _ i x y hx; simp at hx
  | @ans c σ S ctr out rest h1 _ ih =>
    intro tr' h' i x y hx hy
    cases h' with
    | nil => simp at hy
    | @ans _ σ' S' ctr' out' rest' h1' t' =>
      have := h1.det h1' (Or.inr ⟨_, _, rfl⟩) (Or.inr ⟨_, _, rfl⟩)
      cases this
      cases i with
      | zero => simp at hx hy; rw [← hx, ← hy]
      | succ i => simp at hx hy; exact ih t' i x y hx hy
    | @fin _ ctr' out' rest' h1' t' =>
      have := h1.det h1' (Or.inr ⟨_, _, rfl⟩) (Or.inl rfl)
      cases this
  | @fin c ctr out rest h1 _ ih =>
    intro tr' h' i x y hx hy
    cases h' with
    | nil => simp at hy
    | @ans _ σ' S' ctr' out' rest' h1' t' =>
      have := h1.det h1' (Or.inl rfl) (Or.inr ⟨_, _, rfl⟩)
      cases this
    | @fin _ ctr' out' rest' h1' t' =>
      have := h1.det h1' (Or.inl rfl) (Or.inl rfl)
      cases this
      cases i with
      | zero => simp at hx hy; rw [← hx, ← hy]
      | succ i => simp at hx hy; exact ih t' i x y hx hy

end Suiron.Spec
