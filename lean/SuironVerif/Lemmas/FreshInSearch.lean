/-
  C10 in the middle of a search: NO FRESH VARIABLE IS IN USE ELSEWHERE.

  Along every run of the reference machine with cut (`Spec/GroupMachine.lean`) from a query whose variable ids are at most the
  counter, every variable anywhere in the configuration — goal lists, pending calls, substitution sets, the alternatives kept
  on the stack, the inner searches of `not` and `time` — has an id at most the counter (`ids_below_counter`); and the clause
  `get_rule` hands out from that counter has only ids above it (`clause_ids_above_counter`).  So the variables of a clause
  instance are disjoint from everything in use at the moment the clause is taken (`fresh_in_search`).
  (Fragment of `Lemmas/NameBlindGroup.lean`; the invariant is the one the renaming simulation carries, taken at the identity
  renaming.)
-/
import SuironVerif.Lemmas.NameBlindGroup
namespace Suiron.Blind
open Suiron Suiron.Spec.Grp

theorem mapRule_id (r : Rule) : mapRule id r = r := by
  obtain ⟨h, b⟩ := r
  have e : cst id = idN := rfl
  simp only [mapRule, e, mapN_id, mapG_id]

theorem RulesRen.refl : ∀ rs : List Rule, RulesRen rs rs
  | [] => .nil
  | r :: rs => by
    have := RulesRen.cons (r := r) id (fun _ _ h => h) (RulesRen.refl rs)
    rwa [mapRule_id] at this

theorem KBRen.refl : ∀ kb : KB, KBRen kb kb
  | [] => .nil
  | (key, rs) :: kb => .cons (RulesRen.refl rs) (KBRen.refl kb)

/-- the invariant: along a run every id in the configuration stays at most the counter, and the counter never decreases -/
theorem ids_below_counter (fo : FloatOps) {kb : KB} (hok : kbOK kb) {a b : CConf} (h : CSteps fo kb a b)
    (hg : goodCFs a.ctr a.stack) : goodCFs b.ctr b.stack ∧ a.ctr ≤ b.ctr := by
  obtain ⟨_, _, _, _, hg', hc⟩ := csteps_sim fo (kbRel_of_kbRen (KBRen.refl kb) hok) h idN idN_inj hg
  exact ⟨hg', hc⟩

/-- what `get_rule` hands out from counter `c` has ids above `c` only, at most the new counter -/
theorem clause_ids_above_counter {kb : KB} (hok : kbOK kb) (key : String) (idx c : Nat) (r : Rule) (c' : Nat)
    (hget : getRule kb key idx c = .ok (r, c')) :
    c ≤ c' ∧ (rng c c' r.head = true ∧ callOK r.head = true) ∧ rngG c c' r.body = true := by
  unfold getRule at hget
  cases hk : kb.get key with
  | none => simp [hk] at hget
  | some rs =>
    simp only [hk] at hget
    cases hi : rs[idx]? with
    | none => simp [hi] at hget
    | some r0 =>
      simp only [hi] at hget
      cases hx : renameRule r0 ⟨[], c⟩ with
      | ok x =>
        simp only [hx, Res.bind_ok, Res.ok.injEq, Prod.mk.injEq] at hget
        have := renameRule_rng c r0 (hok key rs hk r0 (List.mem_of_getElem? hi)) x hx
        rw [hget.1, hget.2] at this
        exact this
      | fail => simp [hx, Res.bind] at hget
      | panic => simp [hx, Res.bind] at hget
      | oof => simp [hx, Res.bind] at hget

/-- C10, MID-SEARCH: whenever a run from a query reaches a pending call and a clause is taken for it, every variable in use
    anywhere in the configuration has an id at most the counter, and every variable of the clause instance an id above it -/
theorem fresh_in_search (fo : FloatOps) {kb : KB} (hok : kbOK kb) (q : Goal) (c0 : Nat) (hq : goodG c0 q = true) (out0 : List String)
    {t : Term} {σ : Subst} {idx n : Nat} {k : List CG} {S : List CFrame} {c : Nat} {o : List String}
    (hrun : CSteps fo kb ⟨[.goals [.g q 0] []], c0, out0⟩ ⟨.try t σ idx n k :: S, c, o⟩)
    (key : String) (r : Rule) (c' : Nat) (hget : getRule kb key idx c = .ok (r, c')) :
    goodCFs c (.try t σ idx n k :: S) ∧ (rng c c' r.head = true ∧ rngG c c' r.body = true) := by
  have hg0 : goodCFs c0 [CFrame.goals [.g q 0] []] := by
    simp only [goodCFs, goodCF, and_true]
    exact ⟨goodKc_cons.mpr ⟨hq, fun x hx => by simp at hx⟩, goodS_nil c0⟩
  have h1 := (ids_below_counter fo hok hrun hg0).1
  have h2 := clause_ids_above_counter hok key idx c r c' hget
  exact ⟨h1, h2.2.1.1, h2.2.2⟩

end Suiron.Blind
