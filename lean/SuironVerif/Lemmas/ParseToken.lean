/-
  Helper lemmas for C19 / C20: how the scanners treat a token text (no blanks, none of the
  characters `[ ] ( ) , " \ |`).
-/
import SuironVerif.Lemmas.ParseSafe
namespace Suiron.Parse

/-! ### token texts: no blanks, none of the characters the scanners react to -/

def specialChar (c : Char) : Bool :=
  c == '[' || c == ']' || c == '(' || c == ')' || c == ',' || c == '"' || c == '\\' || c == '|'

/-- a character of a token: not a blank, not special -/
def tokChar (c : Char) : Bool := !specialChar c && !isWs c

def TokenText (s : Text) : Prop := s ≠ [] ∧ ∀ c ∈ s, tokChar c = true

theorem dropWhile_head_false {p : Char → Bool} {a : Char} {s : Text} (h : p a = false) :
    (a :: s).dropWhile p = a :: s := by simp [List.dropWhile, h]

theorem trim_of_ends {s : Text} (hne : s ≠ []) (hh : ∀ a, s.head? = some a → isWs a = false)
    (hl : ∀ a, s.getLast? = some a → isWs a = false) : trim s = s := by
  unfold trim trimEnd trimStart
  cases s with
  | nil => exact absurd rfl hne
  | cons a t =>
    rw [dropWhile_head_false (hh a rfl)]
    cases hr : (a :: t).reverse with
    | nil => simp at hr
    | cons b u =>
      have hb : (a :: t).getLast? = some b := by
        rw [List.getLast?_eq_head?_reverse, hr]; rfl
      rw [dropWhile_head_false (hl b hb), ← hr, List.reverse_reverse]

theorem TokenText.trim {s : Text} (h : TokenText s) : trim s = s := by
  apply trim_of_ends h.1
  · intro a ha
    have : a ∈ s := by cases s with | nil => cases ha | cons b t => simp at ha; simp [ha]
    have := h.2 a this; simp [tokChar] at this; exact this.2
  · intro a ha
    have : a ∈ s := List.mem_of_getLast? ha
    have := h.2 a this; simp [tokChar] at this; exact this.2

/-! ### no infix is found in a text without blanks, quotes and parentheses -/

theorem arithLoop_noblank : ∀ (cs : Text) (i : Nat) (prev : Char),
    (∀ c ∈ cs, c ≠ ' ' ∧ c ≠ '"' ∧ c ≠ '(') → prev ≠ ' ' → arithLoop cs i prev none = (.none, 0) := by
  intro cs
  induction cs with
  | nil => intros; simp [arithLoop]
  | cons c rest ih =>
    intro i prev h hp
    have hc := h c (by simp)
    have hrest : ∀ c' ∈ rest, c' ≠ ' ' ∧ c' ≠ '"' ∧ c' ≠ '(' := fun c' hc' => h c' (by simp [hc'])
    simp only [arithLoop]
    simp [hc.2.1, hc.2.2, hp]
    exact ih _ _ hrest hc.1

theorem tokChar_facts {c : Char} (h : tokChar c = true) :
    c ≠ ' ' ∧ c ≠ '"' ∧ c ≠ '(' ∧ c ≠ ')' ∧ c ≠ '[' ∧ c ≠ ']' ∧ c ≠ ',' ∧ c ≠ '\\' ∧ c ≠ '|' ∧ isWs c = false := by
  simp [tokChar, specialChar] at h
  obtain ⟨⟨⟨⟨⟨⟨⟨⟨h1, h2⟩, h3⟩, h4⟩, h5⟩, h6⟩, h7⟩, h8⟩, hw⟩ := h
  refine ⟨?_, h6, h3, h4, h1, h2, h5, h7, h8, hw⟩
  intro he; subst he; simp [isWs] at hw

theorem checkArithmeticInfix_token {s : Text} (h : TokenText s) : checkArithmeticInfix s = (.none, 0) := by
  unfold checkArithmeticInfix
  apply arithLoop_noblank
  · intro c hc; have := tokChar_facts (h.2 c hc); exact ⟨this.1, this.2.1, this.2.2.1⟩
  · decide



/-- the state of the argument loop while it reads an argument outside quotes and brackets -/
structure ArgPlain (st : ArgSt) : Prop where
  esc : st.esc = false
  oq : st.openQuote = false
  rd : st.round = 0
  sq : st.square = 0
  noWs : ∀ c ∈ st.arg, isWs c = false

theorem trim_noWs {s : Text} (h : ∀ c ∈ s, isWs c = false) : trim s = s := by
  cases s with
  | nil => rfl
  | cons a t =>
    apply trim_of_ends (by simp)
    · intro b hb; simp at hb; subst hb; exact h _ (by simp)
    · intro b hb; exact h b (List.mem_of_getLast? hb)

def ArgSt.flags (st : ArgSt) : Bool × Bool × Bool := (st.hasDigit, st.hasNonDigit, st.hasPeriod)

/-- one token character: the state stays plain, the character is appended, the flags change by `flagStep` -/
theorem argStep_token (mk : Text → Bool → Bool → Bool → Res Term) (ch : Char) (rest : Text) (st : ArgSt)
    (hp : ArgPlain st) (hc : tokChar ch = true) :
    ∃ st', argStep mk ch rest st = .ok st' ∧ ArgPlain st' ∧ st'.arg = st.arg ++ [ch] ∧
      st'.flags = flagStep ch (st.arg.isEmpty && isDigit (rest.head?.getD 'x')) st.flags ∧
      st'.numQuotes = st.numQuotes ∧ st'.terms = st.terms ∧ st'.pending = st.pending := by
  have hf := tokChar_facts hc
  obtain ⟨h1, h2, h3, h4, h5, h6, h7, h8, h9, hw⟩ := hf
  have hnw : ∀ c ∈ st.arg ++ [ch], isWs c = false := by
    intro c hc'
    rcases List.mem_append.mp hc' with h | h
    · exact hp.noWs c h
    · simp at h; subst h; exact hw
  unfold argStep
  simp only [hp.esc, hp.oq, hp.rd, hp.sq, Bool.false_eq_true, if_false]
  simp only [show (ch == '[') = false from by simpa using h5, show (ch == ']') = false from by simpa using h6,
    show (ch == '(') = false from by simpa using h3, show (ch == ')') = false from by simpa using h4,
    show (ch == '"') = false from by simpa using h2, Bool.false_and, Bool.false_eq_true, if_false]
  simp only [show ((0:Int) == 0 && (0:Int) == 0) = true from rfl, if_true]
  unfold argStepTop
  simp only [show (ch == ',') = false from by simpa using h7, Bool.false_eq_true, if_false]
  by_cases hd : isDigit ch = true
  · simp only [hd, if_true]
    exact ⟨_, rfl, ⟨hp.esc, hp.oq, hp.rd, hp.sq, hnw⟩, rfl, by simp [ArgSt.flags, ArgSt.push, flagStep, hd], rfl, rfl, rfl⟩
  · have hd' : isDigit ch = false := by simpa using hd
    simp only [hd', Bool.false_eq_true, if_false]
    by_cases hs : (ch == '+' || ch == '-') = true
    · simp only [hs, if_true]
      refine ⟨_, rfl, ⟨hp.esc, hp.oq, hp.rd, hp.sq, hnw⟩, rfl, ?_, rfl, rfl, rfl⟩
      have hper : (ch == '.') = false := by
        rcases (by simpa using hs : ch = '+' ∨ ch = '-') with rfl | rfl <;> decide
      have hat : ((trim (st.arg ++ [ch])).length == 1) = st.arg.isEmpty := by
        rw [trim_noWs hnw]
        cases st.arg <;> simp
      simp only [ArgSt.flags, argSign, ArgSt.push, flagStep, hd', hper, hs, hat, Bool.false_eq_true, if_false, Bool.true_and]
      cases hA : st.arg.isEmpty <;> cases hN : isDigit (rest.head?.getD 'x') <;> simp
    · have hs' : (ch == '+' || ch == '-') = false := by simpa using hs
      simp only [hs', Bool.false_eq_true, if_false]
      by_cases hper : (ch == '.') = true
      · simp only [hper, if_true]
        exact ⟨_, rfl, ⟨hp.esc, hp.oq, hp.rd, hp.sq, hnw⟩, rfl, by simp [ArgSt.flags, ArgSt.push, flagStep, hd', hper], rfl, rfl, rfl⟩
      · have hper' : (ch == '.') = false := by simpa using hper
        simp only [hper', show (ch == '\\') = false from by simpa using h8,
          show (ch == '"') = false from by simpa using h2, Bool.false_eq_true, if_false]
        exact ⟨_, rfl, ⟨hp.esc, hp.oq, hp.rd, hp.sq, hnw⟩, rfl,
          by simp [ArgSt.flags, ArgSt.push, flagStep, hd', hper', hs', hw], rfl, rfl, rfl⟩



theorem argsLoop_token (mk : Text → Bool → Bool → Bool → Res Term) (signOK : Bool) :
    ∀ (cs : Text) (st : ArgSt) (i : Nat), (∀ c ∈ cs, tokChar c = true) → ArgPlain st → i = st.arg.length →
      (i = 0 → signOK = isDigit ((cs.drop 1).head?.getD 'x')) →
      ∃ st', argsLoop mk cs st = argsFinish mk st' ∧ ArgPlain st' ∧ st'.arg = st.arg ++ cs ∧
        st'.flags = flagLoop signOK cs i st.flags ∧
        st'.numQuotes = st.numQuotes ∧ st'.terms = st.terms ∧ st'.pending = st.pending := by
  intro cs
  induction cs with
  | nil => intro st i _ hp _ _; exact ⟨st, by simp [argsLoop], hp, by simp, by simp [flagLoop], rfl, rfl, rfl⟩
  | cons ch rest ih =>
    intro st i hc hp hi hs
    obtain ⟨st1, h1, hp1, ha1, hf1, hq1, ht1, hpe1⟩ := argStep_token mk ch rest st hp (hc ch (by simp))
    have hlead : (st.arg.isEmpty && isDigit (rest.head?.getD 'x')) = (i == 0 && signOK) := by
      cases harg : st.arg with
      | nil =>
        have hi0 : i = 0 := by rw [hi, harg]; rfl
        subst hi0
        simp [hs rfl]
      | cons a t =>
        have : i ≠ 0 := by rw [hi, harg]; simp
        simp [this]
    obtain ⟨st', h2, hp2, ha2, hf2, hq2, ht2, hpe2⟩ :=
      ih st1 (i + 1) (fun c hc' => hc c (by simp [hc'])) hp1 (by rw [ha1, hi]; simp) (by intro h; omega)
    refine ⟨st', ?_, hp2, by rw [ha2, ha1]; simp, ?_, by rw [hq2, hq1], by rw [ht2, ht1], by rw [hpe2, hpe1]⟩
    · simp only [argsLoop, h1, Res.bind_ok]; exact h2
    · rw [hf2, hf1, hlead]; simp [flagLoop]

theorem termFlags_eq (s : Text) :
    termFlags s = flagLoop (isDigit ((s.drop 1).head?.getD 'x')) s 0 (false, false, false) := by
  unfold termFlags
  simp only
  congr 1
  cases s with
  | nil => rfl
  | cons a t =>
    cases t with
    | nil => simp [isDigit]
    | cons b u => simp

theorem checkQuotes_zero (s : Text) : checkQuotes s 0 = .ok () := by simp [checkQuotes]

theorem token_any_ws {s : Text} (h : TokenText s) : s.any isWs = false := by
  rw [List.any_eq_false]
  intro c hc
  simpa using (tokChar_facts (h.2 c hc)).2.2.2.2.2.2.2.2.2

/-- a token text as the only argument: `parse_arguments` hands it to `make_term` with the flags `parse_term` computes -/
theorem parseArguments_token (po : POps) (f : Nat) {s : Text} (h : TokenText s) :
    parseArguments po (f + 1) s =
      (makeTerm po f s (termFlags s).1 (termFlags s).2.1 (termFlags s).2.2).bind fun t => .ok [t] := by
  simp only [parseArguments, parseArgumentsWith, h.trim]
  have htrim := h.trim
  have hws := token_any_ws h
  obtain ⟨hne, hall⟩ := h
  obtain ⟨st', h1, hp, harg, hfl, hq, ht, hpe⟩ :=
    argsLoop_token (makeTerm po f) (isDigit ((s.drop 1).head?.getD 'x')) s {} 0 hall
      ⟨rfl, rfl, rfl, rfl, by intro c hc; cases hc⟩ rfl (fun _ => rfl)
  have harg' : st'.arg = s := by simpa using harg
  have hfl' : st'.flags = termFlags s := by rw [hfl, termFlags_eq]; rfl
  have e1 : st'.hasDigit = (termFlags s).1 := by rw [← hfl']; rfl
  have e2 : st'.hasNonDigit = (termFlags s).2.1 := by rw [← hfl']; rfl
  have e3 : st'.hasPeriod = (termFlags s).2.2 := by rw [← hfl']; rfl
  have hlast : (s.getLast? == some ',') = false := by
    cases hl : s.getLast? with
    | none => rfl
    | some z =>
      have hz := tokChar_facts (hall z (List.mem_of_getLast? hl))
      simpa using hz.2.2.2.2.2.2.1
  have hfin : argsFinish (makeTerm po f) st' =
      (makeTerm po f s (termFlags s).1 (termFlags s).2.1 (termFlags s).2.2).bind fun t => .ok [t] := by
    unfold argsFinish
    have hpe' : st'.pending = true := by rw [hpe]
    have hq' : st'.numQuotes = 0 := by rw [hq]
    have ht' : st'.terms = [] := by rw [ht]
    simp only [hpe', harg', htrim, hq', checkQuotes_zero, Res.bind_ok, if_true, hws, Bool.or_false, hp.rd, hp.sq, e1, e2, e3, ht']
    cases makeTerm po f s (termFlags s).1 (termFlags s).2.1 (termFlags s).2.2 <;> simp [Res.bind]
  cases s with
  | nil => exact absurd rfl hne
  | cons a t =>
    have ha := tokChar_facts (hall a (by simp))
    simp only [show (a == ',') = false from by simpa using ha.2.2.2.2.2.2.1, hlast, Bool.false_eq_true, if_false, Res.bind_ok]
    rw [h1, hfin]

theorem unescLoop_plain : ∀ (s : Text), (∀ c ∈ s, tokChar c = true) → unescLoop s 0 0 false = (s, 0) := by
  intro s
  induction s with
  | nil => intro _; rfl
  | cons ch rest ih =>
    intro h
    obtain ⟨_, h2, h3, h4, h5, h6, _, h8, _, _⟩ := tokChar_facts (h ch (by simp))
    have ihr := ih (fun c hc => h c (by simp [hc]))
    unfold unescLoop
    simp [h2, h3, h4, h5, h6, h8, ihr]

/-- a token text on its own: `parse_term` hands it to `make_term` -/
theorem parseTerm_token (po : POps) (f : Nat) {s : Text} (h : TokenText s) :
    parseTerm po (f + 1) s = makeTerm po f s (termFlags s).1 (termFlags s).2.1 (termFlags s).2.2 := by
  simp only [parseTerm, h.trim, checkArithmeticInfix_token h]
  simp only [show ((Infix.none == Infix.plus || Infix.none == Infix.minus || Infix.none == Infix.mul || Infix.none == Infix.div) = true) = False from by decide, if_false]
  have hu : unescape s = (s, 0) := unescLoop_plain s h.2
  rw [hu]
  simp [checkQuotes, Res.bind, h.trim]



structure ListPlain (st : ListSt) : Prop where
  oq : st.openQuote = false
  rd : st.round = 0
  sq : st.square = 0

/-- one token character of a list element: it is only collected -/
theorem listStep_token (po : POps) (pt : Text → Res Term) (c : Char) (esc : Bool) (st : ListSt)
    (hp : ListPlain st) (hc : tokChar c = true) :
    listStep po pt c esc st = .ok (st.push c) := by
  obtain ⟨h1, h2, h3, h4, h5, h6, h7, h8, h9, hw⟩ := tokChar_facts hc
  unfold listStep listStepTop
  simp only [hp.oq, hp.rd, hp.sq, Bool.false_eq_true, if_false,
    show (c == ']') = false from by simpa using h6, show (c == '[') = false from by simpa using h5,
    show (c == ')') = false from by simpa using h4, show (c == '(') = false from by simpa using h3,
    show (c == '"') = false from by simpa using h2, show (c == ',') = false from by simpa using h7,
    show (c == '|') = false from by simpa using h9, Bool.false_and]
  simp

theorem listLoop_token (po : POps) (pt : Text → Res Term) :
    ∀ (rv : Text) (st : ListSt), rv ≠ [] → (∀ c ∈ rv, tokChar c = true) → ListPlain st →
      listLoop po pt rv st = listFinish pt { st with seg := rv.reverse ++ st.seg } := by
  intro rv
  induction rv with
  | nil => intro st h; exact absurd rfl h
  | cons c rest ih =>
    intro st _ hall hp
    simp only [listLoop, listStep_token po pt c _ st hp (hall c (by simp)), Res.bind_ok]
    cases rest with
    | nil => simp [ListSt.push]
    | cons a b =>
      simp only
      rw [ih (st.push c) (by simp) (fun x hx => hall x (by simp [hx])) ⟨hp.oq, hp.rd, hp.sq⟩]
      simp [ListSt.push]

/-- a token text as the only element of a list: the element is parsed by `parse_term` -/
theorem parseLinkedList_token (po : POps) (f : Nat) {s : Text} (h : TokenText s) :
    parseLinkedList po (f + 1) ('[' :: s ++ [']']) =
      (parseTerm po f s).bind fun t => .ok (.cons t Term.empty 1 false) := by
  have hb : ('[' :: s ++ [']']) = '[' :: (s ++ [']']) := rfl
  have htr : trim ('[' :: (s ++ [']'])) = '[' :: (s ++ [']']) := by
    apply trim_of_ends (by simp)
    · intro a ha; simp at ha; subst ha; decide
    · intro a ha
      have : a = ']' := by
        rw [show ('[' :: (s ++ [']'])) = ('[' :: s) ++ [']'] from rfl, List.getLast?_concat] at ha
        simpa using ha.symm
      subst this; decide
  obtain ⟨hne, hall⟩ := h
  simp only [parseLinkedList, parseLinkedListWith, hb, htr]
  have hlen : ¬ ((('[' :: (s ++ [']'])).length) < 2) := by simp
  have hlen2 : ((('[' :: (s ++ [']'])).length) == 2) = false := by
    cases s with
    | nil => exact absurd rfl hne
    | cons a t => simp
  have hlast : ('[' :: (s ++ [']'])).getLast? = some ']' := by
    rw [show ('[' :: (s ++ [']'])) = ('[' :: s) ++ [']'] from rfl, List.getLast?_concat]
  simp only [hlen, if_false, List.head?_cons, hlast, show ('[' != '[') = false from by decide,
    show (']' != ']') = false from by decide, Bool.false_eq_true, hlen2]
  have hmid : (List.drop 1 ('[' :: (s ++ [']']))).dropLast = s := by simp
  rw [hmid]
  rw [listLoop_token po _ s.reverse {} (by simpa using hne) (by intro c hc; exact hall c (by simpa using hc)) ⟨rfl, rfl, rfl⟩]
  simp only [List.reverse_reverse, List.append_nil]
  unfold listFinish
  have hnE : (trim s).isEmpty = false := by
    rw [TokenText.trim ⟨hne, hall⟩]; cases s with
    | nil => exact absurd rfl hne
    | cons a t => rfl
  simp only [TokenText.trim ⟨hne, hall⟩] at hnE ⊢
  simp only [hnE, Bool.false_eq_true, if_false, checkQuotes_zero, Res.bind_ok]
  cases parseTerm po f s <;> simp [Res.bind, linkFront, Term.empty]



/-! ### a token text as the left operand of ` = ` -/

theorem infixLoop_token (len : Nat) : ∀ (pre rest : Text) (i : Nat) (prev : Char),
    (∀ c ∈ pre, tokChar c = true) → prev ≠ ' ' →
    ∃ prev', prev' ≠ ' ' ∧ infixLoop len (pre ++ rest) i prev none = infixLoop len rest (i + pre.length) prev' none := by
  intro pre
  induction pre with
  | nil => intro rest i prev _ hp; exact ⟨prev, hp, by simp⟩
  | cons c pre ih =>
    intro rest i prev hall hp
    have hc := tokChar_facts (hall c (by simp))
    obtain ⟨prev', hp', h⟩ := ih rest (i + 1) c (fun x hx => hall x (by simp [hx])) hc.1
    refine ⟨prev', hp', ?_⟩
    simp only [List.cons_append, infixLoop]
    simp only [show (c == '"') = false from by simpa using hc.2.1, show (c == '(') = false from by simpa using hc.2.2.1,
      Bool.false_eq_true, if_false, show (prev != ' ') = true from by simpa using hp, if_true]
    rw [h]; simp only [List.length_cons]; congr 1; omega

theorem checkInfix_token_unify {s rhs : Text} (hs : TokenText s) (hr : rhs ≠ []) :
    checkInfix (s ++ ' ' :: '=' :: ' ' :: rhs) = (.unify, s.length + 1) := by
  unfold checkInfix
  obtain ⟨prev', hp', h⟩ := infixLoop_token (s ++ ' ' :: '=' :: ' ' :: rhs).length s (' ' :: '=' :: ' ' :: rhs) 0 '#' hs.2 (by decide)
  rw [h]
  have hlen : ¬ (0 + s.length + 1 + 2 ≥ (s ++ ' ' :: '=' :: ' ' :: rhs).length) := by
    cases rhs with
    | nil => exact absurd rfl hr
    | cons a b => simp; omega
  simp only [infixLoop, show ((' ' : Char) == '"') = false from by decide, show ((' ' : Char) == '(') = false from by decide,
    Bool.false_eq_true, if_false, show (prev' != ' ') = true from by simpa using hp', if_true,
    show (('=' : Char) == '"') = false from by decide, show (('=' : Char) == '(') = false from by decide,
    show ((' ' : Char) != ' ') = false from by decide, hlen,
    show (('=' : Char) == '<') = false from by decide, show (('=' : Char) == '>') = false from by decide,
    show (('=' : Char) == '=') = true from by decide, List.head?_cons, Option.getD_some,
    show ((' ' : Char) == '=') = false from by decide, show ((' ' : Char) == ' ') = true from by decide]
  simp

theorem trim_token_blank {s : Text} (h : TokenText s) : trim (s ++ [' ']) = s := by
  obtain ⟨hne, hall⟩ := h
  cases s with
  | nil => exact absurd rfl hne
  | cons a t =>
    unfold trim trimEnd trimStart
    have ha := (tokChar_facts (hall a (by simp))).2.2.2.2.2.2.2.2.2
    rw [show (a :: t) ++ [' '] = a :: (t ++ [' ']) from rfl, dropWhile_head_false ha]
    rw [show (a :: (t ++ [' '])) = (a :: t) ++ [' '] from rfl, List.reverse_append]
    simp only [List.reverse_cons, List.reverse_nil, List.nil_append, List.singleton_append]
    rw [List.dropWhile_cons_of_pos (by decide)]
    cases hr : (t.reverse ++ [a]) with
    | nil => simp at hr
    | cons b u =>
      have hb : b ∈ a :: t := by
        have : b ∈ t.reverse ++ [a] := by rw [hr]; simp
        simpa [or_comm] using this
      have hbw := (tokChar_facts (hall b hb)).2.2.2.2.2.2.2.2.2
      rw [dropWhile_head_false hbw, ← hr]
      simp

theorem parseTerm_congr_trim (po : POps) (f : Nat) {a b : Text} (h : trim a = trim b) :
    parseTerm po f a = parseTerm po f b := by
  cases f with
  | zero => rfl
  | succ f => simp only [parseTerm, h]

/-- `T = rhs` with a token text `T` on the left: the left operand is `parse_term T` -/
theorem parseSubgoal_token_unify (po : POps) (f : Nat) {s rhs : Text} (hs : TokenText s) (hr : TokenText rhs) :
    parseSubgoal po (f + 1) (s ++ ' ' :: '=' :: ' ' :: rhs) =
      (parseTerm po f s).bind fun l => (parseTerm po f rhs).bind fun r =>
        .ok (.bip "unify" (some (.cons l (.cons r .nil)))) := by
  have htr : trim (s ++ ' ' :: '=' :: ' ' :: rhs) = s ++ ' ' :: '=' :: ' ' :: rhs := by
    obtain ⟨hne, hall⟩ := hs
    cases s with
    | nil => exact absurd rfl hne
    | cons a t =>
      apply trim_of_ends (by simp)
      · intro b hb; simp at hb; subst hb; exact (tokChar_facts (hall _ (by simp))).2.2.2.2.2.2.2.2.2
      · intro b hb
        have hbm : b ∈ rhs := by
          have : (a :: t ++ ' ' :: '=' :: ' ' :: rhs) = (a :: t ++ [' ', '=', ' ']) ++ rhs := by simp
          rw [this, List.getLast?_append] at hb
          cases hl : rhs.getLast? with
          | none => simp [List.getLast?_eq_none_iff] at hl; exact absurd hl hr.1
          | some z => rw [hl] at hb; simp at hb; subst hb; exact List.mem_of_getLast? hl
        exact (tokChar_facts (hr.2 b hbm)).2.2.2.2.2.2.2.2.2
  simp only [parseSubgoal, htr, checkInfix_token_unify hs hr.1]
  have hne : (s ++ ' ' :: '=' :: ' ' :: rhs).isEmpty = false := by cases s <;> rfl
  have hmem : ' ' ∈ (s ++ ' ' :: '=' :: ' ' :: rhs) := by simp
  have hkw : ∀ k : String, ' ' ∉ k.toList → ((s ++ ' ' :: '=' :: ' ' :: rhs) == txt k) = false := by
    intro k hk
    cases hb : ((s ++ ' ' :: '=' :: ' ' :: rhs) == txt k) with
    | false => rfl
    | true =>
      have : (s ++ ' ' :: '=' :: ' ' :: rhs) = txt k := by simpa using hb
      rw [this] at hmem; exact absurd hmem hk
  simp only [hne, Bool.false_eq_true, if_false, hkw "!" (by decide), hkw "fail" (by decide), hkw "nl" (by decide),
    Bool.or_false, show (Infix.unify != Infix.none) = true from by decide, if_true]
  have hs1 : slice (s ++ ' ' :: '=' :: ' ' :: rhs) 0 (s.length + 1) = .ok (s ++ [' ']) := by
    unfold slice
    have : (0 ≤ s.length + 1 ∧ s.length + 1 ≤ (s ++ ' ' :: '=' :: ' ' :: rhs).length) := by simp
    simp only [this, and_self, if_true, List.drop_zero]
    rw [show s ++ ' ' :: '=' :: ' ' :: rhs = (s ++ [' ']) ++ ('=' :: ' ' :: rhs) from by simp]
    rw [List.take_left' (by simp)]
  have hs2 : slice (s ++ ' ' :: '=' :: ' ' :: rhs) (s.length + 1 + 2) (s ++ ' ' :: '=' :: ' ' :: rhs).length = .ok rhs := by
    unfold slice
    have : (s.length + 1 + 2 ≤ (s ++ ' ' :: '=' :: ' ' :: rhs).length ∧ (s ++ ' ' :: '=' :: ' ' :: rhs).length ≤ (s ++ ' ' :: '=' :: ' ' :: rhs).length) := by simp; omega
    simp only [this, and_self, if_true, List.take_length]
    rw [show s ++ ' ' :: '=' :: ' ' :: rhs = (s ++ [' ', '=', ' ']) ++ rhs from by simp]
    rw [List.drop_left' (by simp)]
  simp only [hs1, hs2, Res.bind_ok]
  rw [parseTerm_congr_trim po f (a := s ++ [' ']) (b := s) (by rw [trim_token_blank hs, hs.trim])]
  cases parseTerm po f s <;> simp [Res.bind]
  cases parseTerm po f rhs <;> simp [makeGoal, txt, str, bipNames, TermList.ofList]



/-! ### a token text as the only argument of a complex term -/

theorem parenScan_token : ∀ (cs : Text) (i : Nat) (st : ParenScan), (∀ c ∈ cs, tokChar c = true) →
    st.escaped = false → st.inQuotes = false → parenScan cs i st = st := by
  intro cs
  induction cs with
  | nil => intros; rfl
  | cons c rest ih =>
    intro i st hall he hq
    have hc := tokChar_facts (hall c (by simp))
    simp only [parenScan, he, hq, show (c == '(') = false from by simpa using hc.2.2.1,
      show (c == ')') = false from by simpa using hc.2.2.2.1,
      show (c == '"') = false from by simpa using hc.2.1,
      show (c == '\\') = false from by simpa using hc.2.2.2.2.2.2.2.1, Bool.false_eq_true, if_false]
    exact ih _ _ (fun x hx => hall x (by simp [hx])) he hq

theorem parenScan_append : ∀ (a b : Text) (i : Nat) (st : ParenScan),
    parenScan (a ++ b) i st = parenScan b (i + a.length) (parenScan a i st) := by
  intro a
  induction a with
  | nil => intros; simp [parenScan]
  | cons c a ih =>
    intro b i st
    simp only [List.cons_append, parenScan, List.length_cons]
    repeat' split
    all_goals (rw [ih]; congr 1; omega)

theorem indices_token_call {fn s : Text} (hf : ∀ c ∈ fn, tokChar c = true) (hs : ∀ c ∈ s, tokChar c = true) :
    indicesOfParentheses (fn ++ '(' :: s ++ [')']) = .ok (some (fn.length, fn.length + 1 + s.length)) := by
  unfold indicesOfParentheses
  have e : fn ++ '(' :: s ++ [')'] = fn ++ ('(' :: (s ++ [')'])) := by simp
  rw [e, parenScan_append, parenScan_token fn 0 {} hf rfl rfl]
  simp only [parenScan, show (('(' : Char) == '(') = true from by decide, show (('(' : Char) == '"') = false from by decide,
    show (('(' : Char) == '\\') = false from by decide, Bool.false_eq_true, if_false, if_true]
  rw [parenScan_append, parenScan_token s _ _ hs rfl rfl]
  simp [parenScan, Option.orElse]
  omega

/-- `fn(T)` with token texts `fn` (not a variable) and `T`: the argument is `parse_term T` -/
theorem parseComplex_token (po : POps) (f : Nat) {fn s : Text} (hf : TokenText fn) (hs : TokenText s)
    (hd : fn.head? ≠ some '$') (hlen : fn.length + s.length + 2 ≤ 1000) :
    parseComplex po (f + 1) (fn ++ '(' :: s ++ [')']) =
      (parseTerm po (f + 1) s).bind fun t => .ok (.cplx (.cons (.atom (str fn)) (.cons t .nil))) := by
  have htr : trim (fn ++ '(' :: s ++ [')']) = fn ++ '(' :: s ++ [')'] := by
    obtain ⟨hne, hall⟩ := hf
    cases fn with
    | nil => exact absurd rfl hne
    | cons a t =>
      apply trim_of_ends (by simp)
      · intro b hb; simp at hb; subst hb; exact (tokChar_facts (hall _ (by simp))).2.2.2.2.2.2.2.2.2
      · intro b hb
        rw [show (a :: t ++ '(' :: s ++ [')']) = (a :: t ++ '(' :: s) ++ [')'] from by simp, List.getLast?_concat] at hb
        simp at hb; subst hb; decide
  unfold parseComplex parseComplexWith
  simp only [htr]
  have hval : validateComplex (fn ++ '(' :: s ++ [')']) = .ok () := by
    obtain ⟨hne, hall⟩ := hf
    cases fn with
    | nil => exact absurd rfl hne
    | cons a t =>
      have ha := tokChar_facts (hall a (by simp))
      unfold validateComplex
      have hl : ¬ ((a :: t ++ '(' :: s ++ [')']).length > 1000) := by simp at hlen ⊢; omega
      have h1 : (a == '$') = false := by
        have : a ≠ '$' := by intro he; subst he; exact hd rfl
        simpa using this
      simp only [h1, show (a == '(') = false from by simpa using ha.2.2.1, List.cons_append, if_false, Bool.or_self, Bool.false_eq_true]
      rw [if_neg (by simpa using hl)]
  simp only [hval, Res.bind_ok, indices_token_call hf.2 hs.2]
  have hs1 : slice (fn ++ '(' :: s ++ [')']) 0 fn.length = .ok fn := by
    unfold slice
    have : (0 ≤ fn.length ∧ fn.length ≤ (fn ++ '(' :: s ++ [')']).length) := by simp
    simp only [this, and_self, if_true, List.drop_zero]
    rw [show fn ++ '(' :: s ++ [')'] = fn ++ ('(' :: s ++ [')']) from by simp, List.take_left' rfl]
  have hs2 : slice (fn ++ '(' :: s ++ [')']) (fn.length + 1) (fn.length + 1 + s.length) = .ok s := by
    unfold slice
    have : (fn.length + 1 ≤ fn.length + 1 + s.length ∧ fn.length + 1 + s.length ≤ (fn ++ '(' :: s ++ [')']).length) := by simp; omega
    simp only [this, and_self, if_true]
    rw [show fn ++ '(' :: s ++ [')'] = (fn ++ ['('] ++ s) ++ [')'] from by simp, List.take_left' (by simp; omega)]
    rw [show fn ++ ['('] ++ s = (fn ++ ['(']) ++ s from rfl, List.drop_left' (by simp)]
  simp only [hs1, hs2, Res.bind_ok]
  unfold parseFunctorTerms
  have hne : s.isEmpty = false := by cases s with | nil => exact absurd rfl hs.1 | cons a b => rfl
  simp only [hne, Bool.false_eq_true, if_false, hf.trim, parseArguments_token po f hs, ← parseTerm_token po f hs]
  cases parseTerm po (f + 1) s <;> simp [Res.bind, TermList.ofList]

end Suiron.Parse
