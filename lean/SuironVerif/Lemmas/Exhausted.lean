/-
  Exhausted nodes of the engine model: a node that has answered "no more" keeps
  answering "no more", silently (no output, no counter movement, no tick).
-/
import SuironVerif.Model.Engine
namespace Suiron

/-- nodes that can produce nothing further. -/
inductive Exhausted : Node → Prop where
  | nb (n : Node) : n.nb = true → Exhausted n
  | bip (name args σ nb) : Exhausted (.bip name args σ nb false)
  | callNone (t σ nb idx n) : idx ≥ n → Exhausted (.call t σ nb none idx n)
  | callSome (t σ nb c idx n) : idx ≥ n → Exhausted c → Exhausted (.call t σ nb (some c) idx n)
  | andNone (σ nb more head rest) : Exhausted head → Exhausted (.op .and σ nb more head rest none)
  | andSome (σ nb more head rest tl) : Exhausted head → Exhausted tl → Exhausted (.op .and σ nb more head rest (some tl))
  | orTail (σ nb more head rest tl) : Exhausted tl → Exhausted (.op .or σ nb more head rest (some tl))
  | orHead (σ nb more head rest) : Exhausted head → rest.length = 0 → Exhausted (.op .or σ nb more head rest none)
  | notDone (σ nb head rest tail) : Exhausted (.op .not σ nb false head rest tail)
  | timeDone (σ nb head rest tail) : Exhausted (.op .time σ nb false head rest tail)

theorem Exhausted.setNb (n : Node) : Exhausted n.setNb := by
  apply Exhausted.nb
  cases n <;> simp [Node.setNb, Node.nb]

/-- the three mutually recursive facts, for one fuel value. -/
def StaysAt (fo : FloatOps) (kb : KB) (f : Nat) : Prop :=
  (∀ n g, Exhausted n → next fo kb f n g = .oof ∨ ∃ n', next fo kb f n g = .ok ⟨none, n', false, g⟩ ∧ Exhausted n') ∧
  (∀ t σ nb child idx n g, (nb = true ∨ idx ≥ n) → (∀ c, child = some c → Exhausted c) →
      callLoop fo kb f t σ nb child idx n g = .oof ∨
      ∃ n', callLoop fo kb f t σ nb child idx n g = .ok ⟨none, n', false, g⟩ ∧ Exhausted n') ∧
  (∀ σ nb more head rest tail cutAcc g, Exhausted head → (∀ c, tail = some c → Exhausted c) →
      andLoop fo kb f σ nb more head rest tail cutAcc g = .oof ∨
      ∃ n', andLoop fo kb f σ nb more head rest tail cutAcc g = .ok ⟨none, n', cutAcc, g⟩ ∧ Exhausted n')

theorem exhausted_call_of (t : Term) (σ : Subst) (nb : Bool) (child : Option Node) (idx n : Nat)
    (h : nb = true ∨ idx ≥ n) (hc : ∀ c, child = some c → Exhausted c) : Exhausted (.call t σ nb child idx n) := by
  cases h with
  | inl h => exact Exhausted.nb _ (by simp [Node.nb, h])
  | inr h =>
    cases child with
    | none => exact Exhausted.callNone _ _ _ _ _ h
    | some c => exact Exhausted.callSome _ _ _ _ _ _ h (hc c rfl)

theorem exhausted_and_of (σ : Subst) (nb more : Bool) (head : Node) (rest : GoalList) (tail : Option Node)
    (hh : Exhausted head) (ht : ∀ c, tail = some c → Exhausted c) : Exhausted (.op .and σ nb more head rest tail) := by
  cases tail with
  | none => exact Exhausted.andNone _ _ _ _ _ hh
  | some c => exact Exhausted.andSome _ _ _ _ _ _ hh (ht c rfl)

theorem stays_all (fo : FloatOps) (kb : KB) : ∀ f, StaysAt fo kb f := by
  intro f
  induction f with
  | zero =>
    refine ⟨?_, ?_, ?_⟩
    · intro n g _; left; simp [next]
    · intro t σ nb child idx n g _ _; left; simp [callLoop]
    · intro σ nb more head rest tail cutAcc g _ _; left; simp [andLoop]
  | succ f ih =>
    obtain ⟨ihN, ihC, ihA⟩ := ih
    refine ⟨?_, ?_, ?_⟩
    · -- next
      intro n g hex
      by_cases hnb : n.nb = true
      · right; exact ⟨n, by simp [next, hnb], hex⟩
      · cases hex with
        | nb _ h => exact absurd h hnb
        | bip name args σ nb =>
          right; refine ⟨_, ?_, Exhausted.bip name args σ nb⟩
          simp [next, hnb]
        | callNone t σ nb idx n hge =>
          simp [Node.nb] at hnb; subst hnb
          rcases ihC t σ false none idx n g (Or.inr hge) (by intro c hc; cases hc) with h | ⟨n', h, he⟩
          · left; simp [next, Node.nb, h]
          · right; exact ⟨n', by simp [next, Node.nb, h], he⟩
        | callSome t σ nb c idx n hge hc =>
          simp [Node.nb] at hnb; subst hnb
          rcases ihN c g hc with h | ⟨c', h, hc'⟩
          · left; simp [next, Node.nb, h]
          · rcases ihC t σ false none idx n g (Or.inr hge) (by intro c hc; cases hc) with h2 | ⟨n', h2, he⟩
            · left; simp [next, Node.nb, h, h2]
            · right; exact ⟨n', by simp [next, Node.nb, h, h2], he⟩
        | andNone σ nb more head rest hh =>
          simp [Node.nb] at hnb; subst hnb
          rcases ihA σ false more head rest none false g hh (by intro c hc; cases hc) with h | ⟨n', h, he⟩
          · left; simp [next, Node.nb, h]
          · right; exact ⟨n', by simp [next, Node.nb, h], he⟩
        | andSome σ nb more head rest tl hh ht =>
          simp [Node.nb] at hnb; subst hnb
          rcases ihN tl g ht with h | ⟨tl', h, ht'⟩
          · left; simp [next, Node.nb, h]
          · rcases ihA σ false more head rest (some tl') false g hh (by intro c hc; cases hc; exact ht') with h2 | ⟨n', h2, he⟩
            · left; simp [next, Node.nb, h, h2]
            · right; exact ⟨n', by simp [next, Node.nb, h, h2], he⟩
        | orTail σ nb more head rest tl ht =>
          simp [Node.nb] at hnb; subst hnb
          rcases ihN tl g ht with h | ⟨tl', h, ht'⟩
          · left; simp [next, Node.nb, h]
          · right; exact ⟨.op .or σ false more head rest (some tl'), by simp [next, Node.nb, h], Exhausted.orTail _ _ _ _ _ _ ht'⟩
        | orHead σ nb more head rest hh hr =>
          simp [Node.nb] at hnb; subst hnb
          rcases ihN head g hh with h | ⟨head', h, hh'⟩
          · left; simp [next, Node.nb, h]
          · right; exact ⟨.op .or σ false more head' rest none, by simp [next, Node.nb, h, hr], Exhausted.orHead _ _ _ _ _ hh' hr⟩
        | notDone σ nb head rest tail =>
          right; exact ⟨_, by simp [next, hnb], Exhausted.notDone σ nb head rest tail⟩
        | timeDone σ nb head rest tail =>
          right; exact ⟨_, by simp [next, hnb], Exhausted.timeDone σ nb head rest tail⟩
    · -- callLoop
      intro t σ nb child idx n g h hc
      right
      refine ⟨.call t σ nb child idx n, ?_, exhausted_call_of t σ nb child idx n h hc⟩
      cases h with
      | inl h => simp [callLoop, h]
      | inr h =>
        by_cases hb : nb = true
        · simp [callLoop, hb]
        · simp [callLoop, hb, h]
    · -- andLoop
      intro σ nb more head rest tail cutAcc g hh ht
      rcases ihN head g hh with h | ⟨head', h, hh'⟩
      · left; simp [andLoop, h]
      · right
        refine ⟨.op .and σ (nb || false) more head' rest tail, ?_, exhausted_and_of _ _ _ _ _ _ hh' ht⟩
        simp [andLoop, h]

end Suiron

namespace Suiron

/-- the three mutually recursive facts: a call that answers "no more" leaves an exhausted node. -/
def NoneExhAt (fo : FloatOps) (kb : KB) (f : Nat) : Prop :=
  (∀ n g st, next fo kb f n g = .ok st → st.sol = none → Exhausted st.node) ∧
  (∀ t σ nb child idx n g st, callLoop fo kb f t σ nb child idx n g = .ok st →
      (∀ c, child = some c → Exhausted c) → st.sol = none → Exhausted st.node) ∧
  (∀ σ nb more head rest tail cutAcc g st, andLoop fo kb f σ nb more head rest tail cutAcc g = .ok st →
      (∀ c, tail = some c → Exhausted c) → st.sol = none → Exhausted st.node)

theorem none_exh_all (fo : FloatOps) (kb : KB) : ∀ f, NoneExhAt fo kb f := by
  intro f
  induction f with
  | zero =>
    refine ⟨?_, ?_, ?_⟩
    · intro n g st h; simp [next] at h
    · intro t σ nb child idx n g st h; simp [callLoop] at h
    · intro σ nb more head rest tail cutAcc g st h; simp [andLoop] at h
  | succ f ih =>
    obtain ⟨ihN, ihC, ihA⟩ := ih
    refine ⟨?_, ?_, ?_⟩
    · intro n g st h hs
      by_cases hnb : n.nb = true
      · simp [next, hnb] at h; subst h; exact Exhausted.nb _ hnb
      · cases n with
        | bip name args σ nb more =>
          simp [Node.nb] at hnb; subst hnb
          simp only [next, Node.nb] at h
          simp at h
          by_cases hm : more = true
          · simp [hm] at h
            by_cases hc : name = "!"
            · simp [hc] at h; subst h; simp at hs
            · simp [hc] at h
              obtain ⟨r, _, h⟩ := Res.bind_eq_ok.mp h
              cases h; exact Exhausted.bip _ _ _ _
          · simp at hm; subst hm; simp at h; subst h; exact Exhausted.bip _ _ _ _
        | call t σ nb child idx n =>
          simp [Node.nb] at hnb; subst hnb
          simp only [next, Node.nb] at h
          simp at h
          cases child with
          | none => simp at h; exact ihC _ _ _ _ _ _ _ _ h (by intro c hc; cases hc) hs
          | some c =>
            simp at h
            obtain ⟨r, hr, h⟩ := Res.bind_eq_ok.mp h
            by_cases hsol : r.sol.isSome = true
            · simp [hsol] at h; subst h; simp at hs; simp [hs] at hsol
            · simp [hsol] at h
              exact ihC _ _ _ _ _ _ _ _ h (by intro c hc; cases hc) hs
        | op k σ nb more head rest tail =>
          simp [Node.nb] at hnb; subst hnb
          cases k with
          | and =>
            simp only [next, Node.nb] at h
            simp at h
            cases tail with
            | none => simp at h; exact ihA _ _ _ _ _ _ _ _ _ h (by intro c hc; cases hc) hs
            | some tn =>
              simp at h
              obtain ⟨r, hr, h⟩ := Res.bind_eq_ok.mp h
              by_cases hsol : r.sol.isSome = true
              · simp [hsol] at h; subst h; simp at hs; simp [hs] at hsol
              · simp [hsol] at h
                have hrn : r.sol = none := by cases hrs : r.sol <;> simp_all
                exact ihA _ _ _ _ _ _ _ _ _ h (by intro c hc; cases hc; exact ihN _ _ _ hr hrn) hs
          | or =>
            simp only [next, Node.nb] at h
            simp at h
            cases tail with
            | some tn =>
              simp at h
              obtain ⟨r, hr, h⟩ := Res.bind_eq_ok.mp h
              cases h; simp at hs
              exact Exhausted.orTail _ _ _ _ _ _ (ihN _ _ _ hr hs)
            | none =>
              simp at h
              obtain ⟨r, hr, h⟩ := Res.bind_eq_ok.mp h
              by_cases hsol : r.sol.isSome = true
              · simp [hsol] at h; subst h; simp at hs; simp [hs] at hsol
              · simp [hsol] at h
                have hrn : r.sol = none := by cases hrs : r.sol <;> simp_all
                have hhe := ihN _ _ _ hr hrn
                have hhead : Exhausted (if r.cut = true then r.node.setNb else r.node) := by
                  split
                  · exact Exhausted.setNb _
                  · exact hhe
                by_cases hl : rest.length = 0
                · simp [hl] at h; subst h; exact Exhausted.orHead _ _ _ _ _ hhead hl
                · simp [hl] at h
                  by_cases hcut : r.cut = true
                  · simp [hcut] at h; subst h; exact Exhausted.nb _ (by simp [Node.nb])
                  · simp [hcut] at h
                    obtain ⟨m, hm, h⟩ := Res.bind_eq_ok.mp h
                    obtain ⟨r2, hr2, h⟩ := Res.bind_eq_ok.mp h
                    cases h; simp at hs
                    exact Exhausted.orTail _ _ _ _ _ _ (ihN _ _ _ hr2 hs)
          | not =>
            simp only [next, Node.nb] at h
            simp at h
            by_cases hm : more = true
            · simp [hm] at h
              obtain ⟨r, hr, h⟩ := Res.bind_eq_ok.mp h
              cases h; exact Exhausted.notDone _ _ _ _ _
            · simp at hm; subst hm; simp at h; subst h; exact Exhausted.notDone _ _ _ _ _
          | time =>
            simp only [next, Node.nb] at h
            simp at h
            by_cases hm : more = true
            · simp [hm] at h
              obtain ⟨r, hr, h⟩ := Res.bind_eq_ok.mp h
              cases h; exact Exhausted.timeDone _ _ _ _ _
            · simp at hm; subst hm; simp at h; subst h; exact Exhausted.timeDone _ _ _ _ _
    · intro t σ nb child idx n g st h hc hs
      simp only [callLoop] at h
      by_cases hnb : nb = true
      · simp [hnb] at h; subst h; exact Exhausted.nb _ (by simp [Node.nb])
      · simp [hnb] at h
        by_cases hge : n ≤ idx
        · simp [hge] at h; subst h; exact exhausted_call_of _ _ _ _ _ _ (Or.inr hge) hc
        · simp [hge] at h
          obtain ⟨key, _, h⟩ := Res.bind_eq_ok.mp h
          obtain ⟨rc, _, h⟩ := Res.bind_eq_ok.mp h
          split at h
          · exact ihC _ _ _ _ _ _ _ _ h hc hs
          · cases h
          · cases h
          · split at h
            · cases h; simp at hs
            · obtain ⟨m, _, h⟩ := Res.bind_eq_ok.mp h
              obtain ⟨r, hr, h⟩ := Res.bind_eq_ok.mp h
              by_cases hsol : r.sol.isSome = true
              · simp [hsol] at h; subst h; simp at hs; simp [hs] at hsol
              · simp [hsol] at h
                have hrn : r.sol = none := by cases hrs : r.sol <;> simp_all
                exact ihC _ _ _ _ _ _ _ _ h (by intro c hc; cases hc; exact ihN _ _ _ hr hrn) hs
    · intro σ nb more head rest tail cutAcc g st h ht hs
      simp only [andLoop] at h
      obtain ⟨r, hr, h⟩ := Res.bind_eq_ok.mp h
      cases hrs : r.sol with
      | none =>
        simp [hrs] at h; subst h
        have hhe := ihN _ _ _ hr hrs
        have hhead : Exhausted (if r.cut = true then r.node.setNb else r.node) := by
          split
          · exact Exhausted.setNb _
          · exact hhe
        exact exhausted_and_of _ _ _ _ _ _ hhead ht
      | some ss =>
        simp [hrs] at h
        by_cases hl : rest.length = 0
        · simp [hl] at h; subst h; simp at hs
        · simp [hl] at h
          obtain ⟨m, _, h⟩ := Res.bind_eq_ok.mp h
          obtain ⟨r2, hr2, h⟩ := Res.bind_eq_ok.mp h
          by_cases hsol : r2.sol.isSome = true
          · simp [hsol] at h; subst h; simp at hs; simp [hs] at hsol
          · simp [hsol] at h
            have hrn : r2.sol = none := by cases hrs2 : r2.sol <;> simp_all
            exact ihA _ _ _ _ _ _ _ _ _ h (by intro c hc; cases hc; exact ihN _ _ _ hr2 hrn) hs

end Suiron
