/-
  Fuel is a modelling device only: whenever a model function returns anything but "out of fuel", it
  returns the same with every larger fuel.  Hence the outcome (value, failure or panic) of a
  computation is unique, and statements "for some fuel" and "for every sufficient fuel" coincide.
-/
import SuironVerif.Model.Solve
namespace Suiron

/-- `a` is `b`, or `a` ran out of fuel -/
def Res.le {α} (a b : Res α) : Prop := a = .oof ∨ a = b

theorem Res.le_refl {α} (a : Res α) : a.le a := Or.inr rfl
theorem Res.oof_le {α} (b : Res α) : (Res.oof : Res α).le b := Or.inl rfl
theorem Res.le_trans {α} {a b c : Res α} (h1 : a.le b) (h2 : b.le c) : a.le c := by
  rcases h1 with h | h
  · exact Or.inl h
  · subst h; exact h2
theorem Res.le_bind {α β} {a a' : Res α} {g g' : α → Res β} (h : a.le a') (hg : ∀ x, (g x).le (g' x)) :
    (a.bind g).le (a'.bind g') := by
  rcases h with h | h
  · subst h; exact Or.inl rfl
  · subst h
    cases a with
    | ok x => exact hg x
    | fail => exact Or.inr rfl
    | panic => exact Or.inr rfl
    | oof => exact Or.inl rfl

theorem Res.le_ite {α} {c : Prop} [Decidable c] {a a' b b' : Res α} (h1 : c → a.le a') (h2 : ¬c → b.le b') :
    (if c then a else b).le (if c then a' else b') := by
  by_cases h : c
  · simp only [h, if_true]; exact h1 h
  · simp only [h, if_false]; exact h2 h

/-- from one more unit of fuel to any larger fuel -/
theorem Res.le_lift {α} (F : Nat → Res α) (h : ∀ f, (F f).le (F (f+1))) : ∀ f f', f ≤ f' → (F f).le (F f') := by
  intro f f' hle
  induction hle with
  | refl => exact Res.le_refl _
  | step _ ih => exact Res.le_trans ih (h _)

/-- two runs of a fuel-monotone function that both return agree -/
theorem Res.unique {α} (F : Nat → Res α) (h : ∀ f, (F f).le (F (f+1))) (f f' : Nat) (hf : F f ≠ .oof) (hf' : F f' ≠ .oof) :
    F f = F f' := by
  rcases Nat.le_total f f' with hle | hle
  · rcases Res.le_lift F h f f' hle with h1 | h1
    · exact absurd h1 hf
    · exact h1
  · rcases Res.le_lift F h f' f hle with h1 | h1
    · exact absurd h1 hf'
    · exact h1.symm

/-- structural descent through a model definition: both sides have the same shape and differ in fuel only -/
macro "mono" : tactic => `(tactic| repeat' (first
  | with_reducible exact Res.le_refl _
  | with_reducible exact Res.oof_le _
  | (apply_assumption; done)
  | refine Res.le_bind ?_ (fun _ => ?_)
  | refine Res.le_ite (fun _ => ?_) (fun _ => ?_)
  | split
  | dsimp only))

theorem walk_le : ∀ f σ t, (walk f σ t).le (walk (f+1) σ t) := by
  intro f
  induction f with
  | zero => intro σ t; exact Res.oof_le _
  | succ f ih => intro σ t; unfold walk; mono

theorem deref_le : ∀ f σ t, (deref f σ t).le (deref (f+1) σ t) := by
  intro f
  induction f with
  | zero => intro σ t; exact Res.oof_le _
  | succ f ih => intro σ t; unfold deref; mono

theorem resolve_le : ∀ f, (∀ σ t, (resolve f σ t).le (resolve (f+1) σ t)) ∧
    (∀ σ ts, (resolveList f σ ts).le (resolveList (f+1) σ ts)) := by
  intro f
  induction f with
  | zero => exact ⟨fun σ t => Res.oof_le _, fun σ t => Res.oof_le _⟩
  | succ f ih =>
    obtain ⟨ih1, ih2⟩ := ih
    constructor
    · intro σ t; unfold resolve; mono
    · intro σ ts; cases ts <;> (unfold resolveList; mono)

theorem aliased_le : ∀ f σ id t, (aliased f σ id t).le (aliased (f+1) σ id t) := by
  intro f
  induction f with
  | zero => intro σ id t; exact Res.oof_le _
  | succ f ih => intro σ id t; unfold aliased; mono

/-! lists -/

theorem getList_le (f : Nat) (σ : Subst) (t : Term) : (getList f σ t).le (getList (f+1) σ t) := by
  have := walk_le f
  unfold getList; mono

theorem listHeads_le (kt : Bool) : ∀ f σ h l, (listHeads kt f σ h l).le (listHeads kt (f+1) σ h l) := by
  intro f
  induction f with
  | zero => intro σ h l; exact Res.oof_le _
  | succ f ih =>
    intro σ h l
    have := getList_le f
    unfold listHeads; mono

theorem getTerms_le (f : Nat) (σ : Subst) (t : Term) : (getTerms f σ t).le (getTerms (f+1) σ t) := by
  have := walk_le f
  have := listHeads_le true f
  unfold getTerms; mono

theorem countTerms_le (f : Nat) (σ : Subst) (t : Term) : (countTerms f σ t).le (countTerms (f+1) σ t) := by
  have := walk_le f
  have := listHeads_le false f
  unfold countTerms; mono

/-! arithmetic and join -/

theorem getNumbers_le (f : Nat) (σ : Subst) : ∀ ts, (getNumbers f σ ts).le (getNumbers (f+1) σ ts) := by
  intro ts
  have := walk_le f
  induction ts with
  | nil => exact Res.le_refl _
  | cons t ts ih => unfold getNumbers; mono

theorem getAllTerms_le (f : Nat) (σ : Subst) : ∀ ts, (getAllTerms f σ ts).le (getAllTerms (f+1) σ ts) := by
  intro ts
  have := getTerms_le f
  induction ts with
  | nil => exact Res.le_refl _
  | cons t ts ih => unfold getAllTerms; mono

theorem groundAll_le (f : Nat) (σ : Subst) : ∀ ts, (groundAll f σ ts).le (groundAll (f+1) σ ts) := by
  intro ts
  have := walk_le f
  induction ts with
  | nil => exact Res.le_refl _
  | cons t ts ih => unfold groundAll; mono

theorem evalFunc_le (fo : FloatOps) (f : Nat) (name : String) (args : List Term) (σ : Subst) :
    (evalFunc fo f name args σ).le (evalFunc fo (f+1) name args σ) := by
  have := getNumbers_le f
  have := getAllTerms_le f
  have := groundAll_le f
  unfold evalFunc evalJoin evalArith; mono

/-! unification -/

theorem unify_le (fo : FloatOps) : ∀ f,
    (∀ a b σ, (unify fo f a b σ).le (unify fo (f+1) a b σ)) ∧
    (∀ as bs cur acc, (unifyArgs fo f as bs cur acc).le (unifyArgs fo (f+1) as bs cur acc)) ∧
    (∀ a b σ, (unifyList fo f a b σ).le (unifyList fo (f+1) a b σ)) := by
  intro f
  induction f with
  | zero => exact ⟨fun _ _ _ => Res.oof_le _, fun _ _ _ _ => Res.oof_le _, fun _ _ _ => Res.oof_le _⟩
  | succ f ih =>
    obtain ⟨ih1, ih2, ih3⟩ := ih
    have := aliased_le f
    have := evalFunc_le fo f
    refine ⟨?_, ?_, ?_⟩
    · intro a b σ
      unfold unify; mono
    · intro as bs cur acc
      cases as <;> cases bs <;> (unfold unifyArgs; mono)
    · intro a b σ
      unfold unifyList; mono

theorem unify_le1 (fo : FloatOps) (f : Nat) (a b : Term) (σ : Subst) : (unify fo f a b σ).le (unify fo (f+1) a b σ) :=
  (unify_le fo f).1 a b σ

theorem optUnify_le (fo : FloatOps) (f : Nat) (a b : Term) (σ : Subst) : (optUnify fo f a b σ).le (optUnify fo (f+1) a b σ) := by
  unfold optUnify
  rcases unify_le1 fo f a b σ with h | h
  · rw [h]; exact Res.oof_le _
  · rw [h]; exact Res.le_refl _

/-! built-in predicates -/

theorem getConstant_le (f : Nat) (σ : Subst) (t : Term) : (getConstant f σ t).le (getConstant (f+1) σ t) := by
  have := walk_le f
  unfold getConstant; mono

theorem bipCompare_le (fo : FloatOps) (f : Nat) (op : CmpOp) (args : Option (List Term)) (σ : Subst) :
    (bipCompare fo f op args σ).le (bipCompare fo (f+1) op args σ) := by
  have := getConstant_le f
  unfold bipCompare; mono

theorem groundTop_le (f : Nat) (σ : Subst) (t : Term) : (groundTop f σ t).le (groundTop (f+1) σ t) := by
  have := walk_le f
  unfold groundTop; mono

theorem contribution_le (f : Nat) (σ : Subst) (t : Term) : (contribution f σ t).le (contribution (f+1) σ t) := by
  have := groundTop_le f
  have := getTerms_le f
  unfold contribution; mono

theorem appendCollect_le (f : Nat) (σ : Subst) : ∀ ts, (appendCollect f σ ts).le (appendCollect (f+1) σ ts) := by
  intro ts
  have := contribution_le f
  induction ts with
  | nil => exact Res.le_refl _
  | cons t ts ih => unfold appendCollect; mono

theorem bipAppend_le (fo : FloatOps) (f : Nat) (args : Option (List Term)) (σ : Subst) :
    (bipAppend fo f args σ).le (bipAppend fo (f+1) args σ) := by
  have := appendCollect_le f
  have := optUnify_le fo f
  unfold bipAppend; mono

theorem bipCount_le (fo : FloatOps) (f : Nat) (args : Option (List Term)) (σ : Subst) :
    (bipCount fo f args σ).le (bipCount fo (f+1) args σ) := by
  have := countTerms_le f
  have := optUnify_le fo f
  unfold bipCount; mono

theorem filterHeads_le (fo : FloatOps) (f : Nat) (pat : Term) (σ : Subst) (incl : Bool) :
    ∀ hs, (filterHeads fo f pat σ incl hs).le (filterHeads fo (f+1) pat σ incl hs) := by
  intro hs
  have := optUnify_le fo f
  induction hs with
  | nil => exact Res.le_refl _
  | cons h hs ih => unfold filterHeads; mono

theorem bipFilter_le (fo : FloatOps) (f : Nat) (incl : Bool) (args : Option (List Term)) (σ : Subst) :
    (bipFilter fo f incl args σ).le (bipFilter fo (f+1) incl args σ) := by
  have := walk_le f
  have := listHeads_le true f
  have := filterHeads_le fo f
  have := optUnify_le fo f
  unfold bipFilter; mono

theorem bipFunctor_le (fo : FloatOps) (f : Nat) (args : Option (List Term)) (σ : Subst) :
    (bipFunctor fo f args σ).le (bipFunctor fo (f+1) args σ) := by
  have := groundTop_le f
  have := optUnify_le fo f
  unfold bipFunctor; mono

theorem showGround_le (fo : FloatOps) (f : Nat) (σ : Subst) (t : Term) : (showGround fo f σ t).le (showGround fo (f+1) σ t) := by
  have := walk_le f
  unfold showGround; mono

theorem mapRes_le {α β} (g g' : α → Res β) (h : ∀ a, (g a).le (g' a)) : ∀ l, (mapRes g l).le (mapRes g' l) := by
  intro l
  induction l with
  | nil => exact Res.le_refl _
  | cons a as ih => unfold mapRes; mono

theorem bipPrint_le (fo : FloatOps) (f : Nat) (args : Option (List Term)) (σ : Subst) :
    (bipPrint fo f args σ).le (bipPrint fo (f+1) args σ) := by
  have := fun l => mapRes_le (showGround fo f σ) (showGround fo (f+1) σ) (showGround_le fo f σ) l
  unfold bipPrint; mono

theorem fmtSlistLoop_le (fo : FloatOps) : ∀ f σ t l, (fmtSlistLoop fo f σ t l).le (fmtSlistLoop fo (f+1) σ t l) := by
  intro f
  induction f with
  | zero => intro σ t l; exact Res.oof_le _
  | succ f ih =>
    intro σ t l
    have := getList_le f
    have := walk_le f
    unfold fmtSlistLoop; mono

theorem formatSlist_le (fo : FloatOps) (f : Nat) (σ : Subst) (l : Term) : (formatSlist fo f σ l).le (formatSlist fo (f+1) σ l) := by
  have := walk_le f
  have := fmtSlistLoop_le fo f
  unfold formatSlist; mono

theorem printListArgs_le (fo : FloatOps) (f : Nat) (σ : Subst) : ∀ ts first,
    (printListArgs fo f σ ts first).le (printListArgs fo (f+1) σ ts first) := by
  intro ts
  have := groundTop_le f
  have := formatSlist_le fo f
  induction ts with
  | nil => intro first; exact Res.le_refl _
  | cons t ts ih => intro first; unfold printListArgs; mono

theorem bipPrintList_le (fo : FloatOps) (f : Nat) (args : Option (List Term)) (σ : Subst) :
    (bipPrintList fo f args σ).le (bipPrintList fo (f+1) args σ) := by
  have := printListArgs_le fo f
  unfold bipPrintList; mono

/-- every built-in predicate -/
theorem runBip_le (fo : FloatOps) (f : Nat) (name : String) (args : Option (List Term)) (σ : Subst) :
    (runBip fo f name args σ).le (runBip fo (f+1) name args σ) := by
  have := bipPrint_le fo f
  have := bipAppend_le fo f
  have := bipFunctor_le fo f
  have := bipFilter_le fo f
  have := bipPrintList_le fo f
  have := optUnify_le fo f
  have := bipCount_le fo f
  have := bipCompare_le fo f
  unfold runBip; mono

/-! the search engine -/

theorem engine_le (fo : FloatOps) (kb : KB) : ∀ f,
    (∀ N g, (next fo kb f N g).le (next fo kb (f+1) N g)) ∧
    (∀ t σ nb child idx n g, (callLoop fo kb f t σ nb child idx n g).le (callLoop fo kb (f+1) t σ nb child idx n g)) ∧
    (∀ σ nb more head rest tail cutAcc g, (andLoop fo kb f σ nb more head rest tail cutAcc g).le
        (andLoop fo kb (f+1) σ nb more head rest tail cutAcc g)) := by
  intro f
  induction f with
  | zero => exact ⟨fun _ _ => Res.oof_le _, fun _ _ _ _ _ _ _ => Res.oof_le _, fun _ _ _ _ _ _ _ _ => Res.oof_le _⟩
  | succ f ih =>
    obtain ⟨ih1, ih2, ih3⟩ := ih
    have := runBip_le fo f
    refine ⟨?_, ?_, ?_⟩
    · intro N g
      unfold next; mono
    · intro t σ nb child idx n g
      unfold callLoop
      refine Res.le_ite (fun _ => Res.le_refl _) (fun _ => ?_)
      refine Res.le_ite (fun _ => Res.le_refl _) (fun _ => ?_)
      refine Res.le_bind (Res.le_refl _) (fun key => ?_)
      refine Res.le_bind (Res.le_refl _) (fun rc => ?_)
      rcases unify_le1 fo f rc.1.head t σ with h | h
      · rw [h]; exact Res.oof_le _
      · rw [h]; mono
    · intro σ nb more head rest tail cutAcc g
      unfold andLoop; mono

theorem next_le (fo : FloatOps) (kb : KB) (f : Nat) (N : Node) (g : G) : (next fo kb f N g).le (next fo kb (f+1) N g) :=
  (engine_le fo kb f).1 N g

theorem solve_le (fo : FloatOps) (kb : KB) (f : Nat) (q : Term) (node : Node) (g : G) (fire : Option Nat) :
    (solve fo kb f q node g fire).le (solve fo kb (f+1) q node g fire) := by
  have := next_le fo kb f
  have := (resolve_le f).1
  unfold solve; mono

theorem solveAllLoop_le (fo : FloatOps) (kb : KB) (f : Nat) (q : Term) : ∀ k node g acc,
    (solveAllLoop fo kb f q k node g acc).le (solveAllLoop fo kb (f+1) q k node g acc) := by
  intro k
  have := next_le fo kb f
  have := (resolve_le f).1
  induction k with
  | zero => intro node g acc; exact Res.oof_le _
  | succ k ih => intro node g acc; unfold solveAllLoop; mono

theorem solveAll_le (fo : FloatOps) (kb : KB) (f k : Nat) (q : Term) (node : Node) (g : G) (fire : Option Nat) :
    (solveAll fo kb f k q node g fire).le (solveAll fo kb (f+1) k q node g fire) := by
  have := solveAllLoop_le fo kb f q k
  unfold solveAll; mono

/-! the outcome of a unification, a built-in or a request does not depend on the fuel -/

theorem next_unique (fo : FloatOps) (kb : KB) (N : Node) (g : G) (f f' : Nat)
    (h : next fo kb f N g ≠ .oof) (h' : next fo kb f' N g ≠ .oof) : next fo kb f N g = next fo kb f' N g :=
  Res.unique (fun f => next fo kb f N g) (fun f => next_le fo kb f N g) f f' h h'


theorem unify_unique (fo : FloatOps) (a b : Term) (σ : Subst) (f f' : Nat)
    (h : unify fo f a b σ ≠ .oof) (h' : unify fo f' a b σ ≠ .oof) : unify fo f a b σ = unify fo f' a b σ :=
  Res.unique (fun f => unify fo f a b σ) (fun f => unify_le1 fo f a b σ) f f' h h'

theorem runBip_unique (fo : FloatOps) (name : String) (args : Option (List Term)) (σ : Subst) (f f' : Nat)
    (h : runBip fo f name args σ ≠ .oof) (h' : runBip fo f' name args σ ≠ .oof) :
    runBip fo f name args σ = runBip fo f' name args σ :=
  Res.unique (fun f => runBip fo f name args σ) (fun f => runBip_le fo f name args σ) f f' h h'

end Suiron
