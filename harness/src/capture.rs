//! Capture of what the implementation writes to stdout (fd 1): fd 1 is redirected to a
//! temporary file for the whole run; the harness' own records go to a duplicate of the
//! original stdout.
use std::fs::File;
use std::io::{Read, Seek, SeekFrom, Write};
use std::os::unix::io::{AsRawFd, FromRawFd};

extern "C" { fn dup(fd: i32) -> i32; fn dup2(a: i32, b: i32) -> i32; }

pub struct Capture { file: File, pos: u64 }

/// redirect fd 1; returns (capture handle, a File writing to the original stdout)
pub fn redirect_stdout() -> (Capture, File) {
    let path = format!("/dev/shm/suiron_harness_capture_{}", std::process::id());
    let file = std::fs::OpenOptions::new().read(true).write(true).create(true).truncate(true).open(&path)
        .or_else(|_| { let p2 = std::env::temp_dir().join(format!("suiron_harness_capture_{}", std::process::id()));
                       std::fs::OpenOptions::new().read(true).write(true).create(true).truncate(true).open(p2) }).unwrap();
    let _ = std::fs::remove_file(&path);
    let saved = unsafe { dup(1) };
    unsafe { dup2(file.as_raw_fd(), 1); }
    let orig = unsafe { File::from_raw_fd(saved) };
    (Capture{file, pos: 0}, orig)
}

impl Capture {
    /// everything written to fd 1 since the previous call
    pub fn take(&mut self) -> String {
        std::io::stdout().flush().ok();
        let end = self.file.seek(SeekFrom::End(0)).unwrap();
        let mut buf = vec![0u8; (end - self.pos) as usize];
        self.file.seek(SeekFrom::Start(self.pos)).unwrap();
        self.file.read_exact(&mut buf).unwrap();
        self.pos = end;
        if end > (1 << 26) { self.file.set_len(0).ok(); self.pos = 0; self.file.seek(SeekFrom::Start(0)).ok(); }
        String::from_utf8_lossy(&buf).to_string()
    }
}
