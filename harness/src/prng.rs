//! xorshift64* — the single source of randomness of the harness.
pub struct Rng(pub u64);
impl Rng {
    pub fn new(seed: u64) -> Rng {
        let mut r = Rng(seed ^ 0x9E37_79B9_7F4A_7C15);
        if r.0 == 0 { r.0 = 0x1234_5678_9ABC_DEF1; }
        for _ in 0..4 { r.next(); }
        r
    }
    pub fn next(&mut self) -> u64 {
        let mut x = self.0;
        x ^= x >> 12; x ^= x << 25; x ^= x >> 27;
        self.0 = x;
        x.wrapping_mul(0x2545_F491_4F6C_DD1D)
    }
    pub fn below(&mut self, n: usize) -> usize { (self.next() % (n as u64)) as usize }
    pub fn chance(&mut self, num: usize, den: usize) -> bool { self.below(den) < num }
    pub fn pick<'a, T>(&mut self, xs: &'a [T]) -> &'a T { &xs[self.below(xs.len())] }
}
