//! Generators for terms (built with the repo's own constructors).
use suiron::*;
use crate::prng::Rng;

#[derive(Clone)]
pub struct Universe {
    pub anon: bool,      // allow $_
    pub func: bool,      // allow built-in function terms
    pub lists: bool,
    pub floats: bool,
    pub odd_floats: bool, // NaN, -0.0
    pub nvars: usize,    // variable ids 1..=nvars
    pub max_depth: usize,
}

impl Universe {
    pub fn c06() -> Universe { Universe{anon:false, func:false, lists:true, floats:true, odd_floats:false, nvars:5, max_depth:3} }
    pub fn with_anon() -> Universe { Universe{anon:true, ..Universe::c06()} }
    pub fn with_func() -> Universe { Universe{func:true, ..Universe::c06()} }
}

pub fn var(id: usize) -> Unifiable { logic_var!(id, format!("$V{}", id)) }

/// a proper list built node by node exactly as `parse_linked_list` does
/// (EMPTY sentinel, optional tail variable node, `count` = number of nodes).
pub fn proper_list(elems: Vec<Unifiable>, tail: Option<Unifiable>) -> Unifiable {
    let mut list = cons_node!(Unifiable::Nil, Unifiable::Nil, 0, false);
    let mut count = 0;
    if let Some(t) = tail { count += 1; list = cons_node!(t, list, count, true); }
    for e in elems.into_iter().rev() { count += 1; list = cons_node!(e, list, count, false); }
    list
}

pub fn gen_const(r: &mut Rng, u: &Universe) -> Unifiable {
    let k = r.below(if u.floats {8} else {6});
    match k {
        0 | 1 => atom!("a"), 2 => atom!("b"), 3 => atom!("c"),
        4 => SInteger(1), 5 => SInteger(2),
        6 => SFloat(1.0),
        _ => {
            if u.odd_floats && r.chance(1, 2) { if r.chance(1,2) { SFloat(f64::NAN) } else { SFloat(-0.0) } }
            else if r.chance(1,3) { SFloat(0.0) } else if r.chance(1,3) { r.pick(&[SFloat(0.3), SFloat(0.1 + 0.2), SFloat(0.7), SFloat(1e-20)]).clone() } else { SFloat(2.5) }
        },
    }
}

pub fn gen_num(r: &mut Rng) -> Unifiable {
    match r.below(8) {
        0 => SInteger(0), 1 => SInteger(1), 2 => SInteger(2), 3 => SInteger(-3), 4 => SInteger(7),
        5 => SFloat(1.0), 6 => SFloat(2.5), _ => SFloat(-0.5),
    }
}

pub fn gen_func(r: &mut Rng, u: &Universe, depth: usize) -> Unifiable {
    let names = ["add", "subtract", "multiply", "divide", "join"];
    let name = *r.pick(&names);
    let n = 1 + r.below(3);
    let mut args = vec![];
    for _ in 0..n {
        if name == "join" {
            args.push(match r.below(4) { 0 => atom!("x"), 1 => atom!(","), 2 => atom!("y z"), _ => SInteger(4) });
        } else {
            let mut x = gen_num(r);
            // keep integer division away from zero divisors (outside C12/C13)
            if name == "divide" { if let SInteger(0) = x { x = SInteger(2); } }
            args.push(x);
        }
    }
    Unifiable::SFunction{name: name.to_string(), terms: args}
}

pub fn gen_term(r: &mut Rng, u: &Universe, depth: usize) -> Unifiable {
    let leaf = depth >= u.max_depth;
    let k = r.below(100);
    if k < 28 || (leaf && k < 60) { return gen_const(r, u); }
    if k < 52 || leaf {
        if u.anon && r.chance(1, 5) { return Unifiable::Anonymous; }
        return var(1 + r.below(u.nvars));
    }
    if u.func && k < 60 { return gen_func(r, u, depth); }
    if k < 80 || !u.lists {
        let f = if r.chance(2,3) { "f" } else { "g" };
        let n = 1 + r.below(3);
        let mut args = vec![atom!(f)];
        for _ in 0..n { args.push(gen_term(r, u, depth + 1)); }
        return Unifiable::SComplex(args);
    }
    gen_list(r, u, depth)
}

pub fn gen_list(r: &mut Rng, u: &Universe, depth: usize) -> Unifiable {
    let n = r.below(4);
    let mut elems = vec![];
    for _ in 0..n { elems.push(gen_term(r, u, depth + 1)); }
    let tail = if n > 0 && r.chance(1, 3) {
        Some(if u.anon && r.chance(1, 4) { Unifiable::Anonymous } else { var(1 + r.below(u.nvars)) })
    } else { None };
    proper_list(elems, tail)
}

/// mutate a term slightly (to get near-unifiable pairs)
pub fn mutate(r: &mut Rng, u: &Universe, t: &Unifiable, depth: usize) -> Unifiable {
    if r.chance(1, 4) { return gen_term(r, u, depth); }
    match t {
        Unifiable::SComplex(args) => {
            let mut v = vec![args[0].clone()];
            for a in &args[1..] { v.push(if r.chance(1, 2) { mutate(r, u, a, depth + 1) } else { a.clone() }); }
            Unifiable::SComplex(v)
        },
        Unifiable::SLinkedList{..} => {
            // rebuild with mutated elements, possibly a different tail
            let (elems, tail) = list_parts(t);
            let mut e2 = vec![];
            for e in elems { e2.push(if r.chance(1, 2) { mutate(r, u, &e, depth + 1) } else { e }); }
            if r.chance(1, 4) && !e2.is_empty() { e2.pop(); }
            let tail2 = if r.chance(1, 3) { Some(var(1 + r.below(u.nvars))) } else { tail };
            // a list made of a tail variable only cannot be written; never generate it
            let tail2 = if e2.is_empty() { None } else { tail2 };
            proper_list(e2, tail2)
        },
        // a float: sometimes the neighbouring double (a different constant, however close)
        Unifiable::SFloat(x) if x.is_finite() && r.chance(1, 3) => SFloat(f64::from_bits(x.to_bits() + 1)),
        _ => if r.chance(1, 2) { var(1 + r.below(u.nvars)) } else { t.clone() },
    }
}

/// elements and optional tail variable of a well-formed list
pub fn list_parts(t: &Unifiable) -> (Vec<Unifiable>, Option<Unifiable>) {
    let mut elems = vec![];
    let mut cur = t;
    loop {
        match cur {
            Unifiable::SLinkedList{term, next, count: _, tail_var} => {
                if **term == Unifiable::Nil { return (elems, None); }
                if *tail_var { return (elems, Some((**term).clone())); }
                elems.push((**term).clone());
                cur = &**next;
            },
            _ => return (elems, None),
        }
    }
}
