//! Harness-side arithmetic / join reference (documented values), used by oracles.
use suiron::*;

pub fn eval_ref(name: &str, args: &[Unifiable]) -> Option<Unifiable> {
    match name {
        "add" | "subtract" | "multiply" | "divide" => {
            if args.is_empty() { return None; }
            let all_int = args.iter().all(|a| matches!(a, Unifiable::SInteger(_)));
            if !args.iter().all(|a| matches!(a, Unifiable::SInteger(_) | Unifiable::SFloat(_))) { return None; }
            if all_int {
                let xs: Vec<i64> = args.iter().map(|a| if let Unifiable::SInteger(i) = a { *i } else { 0 }).collect();
                let mut acc: i64 = xs[0];
                if name == "add" || name == "multiply" {
                    // documented as a fold of all arguments
                }
                for x in &xs[1..] {
                    acc = match name {
                        "add" => acc.checked_add(*x)?,
                        "subtract" => acc.checked_sub(*x)?,
                        "multiply" => acc.checked_mul(*x)?,
                        _ => { if *x == 0 { return None; } acc.checked_div(*x)? },
                    };
                }
                Some(Unifiable::SInteger(acc))
            } else {
                let xs: Vec<f64> = args.iter().map(|a| match a { Unifiable::SInteger(i) => *i as f64, Unifiable::SFloat(f) => *f, _ => 0.0 }).collect();
                let mut acc = xs[0];
                for x in &xs[1..] {
                    acc = match name { "add" => acc + x, "subtract" => acc - x, "multiply" => acc * x, _ => acc / x };
                }
                Some(Unifiable::SFloat(acc))
            }
        },
        "join" => {
            // documented: words separated by single spaces, , . ? ! attached to the previous word
            let mut out = String::new();
            let mut first = true;
            for a in args {
                let s = match a { Unifiable::Atom(s) => s.clone(), Unifiable::SInteger(i) => format!("{}", i), Unifiable::SFloat(f) => format!("{}", f), _ => return None };
                let punct = s == "," || s == "." || s == "?" || s == "!";
                if punct || first { out.push_str(&s); } else { out.push(' '); out.push_str(&s); }
                first = false;
            }
            Some(Unifiable::Atom(out))
        },
        _ => None,
    }
}
