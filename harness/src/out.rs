//! Output of the harness: one line per record on stdout.
//!   CASE <id> <op> <args>     the input, consumed by the Lean driver
//!   IMPL <id> <result>        what the implementation did (canonical form)
//!   ORACLE <id> <prop> PASS|FAIL <message>
//!   STAT <key> <n>            aggregated at the end
use std::collections::BTreeMap;
use std::io::Write;

/// wall-clock start (ms since the epoch) of the case being run; 0 = idle. Read by the watchdog.
pub static CASE_START_MS: std::sync::atomic::AtomicU64 = std::sync::atomic::AtomicU64::new(0);
pub fn now_ms() -> u64 { std::time::SystemTime::now().duration_since(std::time::UNIX_EPOCH).unwrap().as_millis() as u64 }

pub struct Out {
    pub seq: usize,      // number of cases generated so far (including skipped ones)
    pub skip: usize,     // cases with seq <= skip are generated but not run (resume after an abort)
    pub next_id: usize,
    pub stats: BTreeMap<String, u64>,
    pub w: std::io::BufWriter<std::fs::File>,
    pub cap: crate::capture::Capture,
}
impl Out {
    /// fd 1 now belongs to the implementation (captured); records go to the original stdout
    pub fn new() -> Out {
        let (cap, orig) = crate::capture::redirect_stdout();
        Out{seq: 0, skip: 0, next_id: 0, stats: BTreeMap::new(), w: std::io::BufWriter::with_capacity(1 << 16, orig), cap}
    }
    /// call once per generated case, before anything else; false = skip it
    pub fn begin(&mut self) -> bool { self.seq += 1; self.seq > self.skip }
    pub fn case(&mut self, body: &str) -> usize {
        self.next_id = self.seq;
        CASE_START_MS.store(now_ms(), std::sync::atomic::Ordering::SeqCst);
        writeln!(self.w, "CASE {} {}", self.next_id, body).unwrap();
        // flushed so that a crash of the implementation leaves the offending case visible
        self.w.flush().unwrap();
        self.next_id
    }
    pub fn impl_line(&mut self, id: usize, body: &str) { writeln!(self.w, "IMPL {} {}", id, body).unwrap(); }
    pub fn oracle(&mut self, id: usize, prop: &str, pass: bool, msg: &str) {
        writeln!(self.w, "ORACLE {} {} {} {}", id, prop, if pass {"PASS"} else {"FAIL"}, msg).unwrap();
        self.stat(&format!("oracle_{}_{}", prop, if pass {"pass"} else {"fail"}), 1);
    }
    pub fn trivial(&mut self, id: usize) { writeln!(self.w, "TRIV {}", id).unwrap(); self.stat("trivial", 1); }
    pub fn stat(&mut self, k: &str, n: u64) { *self.stats.entry(k.to_string()).or_insert(0) += n; }
    pub fn finish(&mut self) {
        for (k, v) in self.stats.iter() { writeln!(self.w, "STAT {} {}", k, v).unwrap(); }
        CASE_START_MS.store(0, std::sync::atomic::Ordering::SeqCst);
        writeln!(self.w, "DONE {}", self.seq).unwrap();
        self.w.flush().unwrap();
    }
}
