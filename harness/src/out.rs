//! Output of the harness: one line per record on stdout.
//!   CASE <id> <op> <args>     the input, consumed by the Lean driver
//!   IMPL <id> <result>        what the implementation did (canonical form)
//!   ORACLE <id> <prop> PASS|FAIL <message>
//!   STAT <key> <n>            aggregated at the end
use std::collections::BTreeMap;
use std::io::Write;

pub struct Out {
    pub next_id: usize,
    pub stats: BTreeMap<String, u64>,
    pub w: std::io::BufWriter<std::io::Stdout>,
}
impl Out {
    pub fn new() -> Out { Out{next_id: 0, stats: BTreeMap::new(), w: std::io::BufWriter::with_capacity(1 << 16, std::io::stdout())} }
    pub fn case(&mut self, body: &str) -> usize {
        self.next_id += 1;
        writeln!(self.w, "CASE {} {}", self.next_id, body).unwrap();
        // flushed so that a crash of the implementation leaves the offending case visible
        self.w.flush().unwrap();
        self.next_id
    }
    pub fn impl_line(&mut self, id: usize, body: &str) { writeln!(self.w, "IMPL {} {}", id, body).unwrap(); }
    pub fn oracle(&mut self, id: usize, prop: &str, pass: bool, msg: &str) {
        writeln!(self.w, "ORACLE {} {} {} {}", id, prop, if pass {"PASS"} else {"FAIL"}, msg).unwrap();
        self.stat(&format!("oracle_{}_{}", prop, if pass {"pass"} else {"fail"}), 1);
    }
    pub fn trivial(&mut self, id: usize) { writeln!(self.w, "TRIV {}", id).unwrap(); self.stat("trivial", 1); }
    pub fn stat(&mut self, k: &str, n: u64) { *self.stats.entry(k.to_string()).or_insert(0) += n; }
    pub fn finish(&mut self) {
        for (k, v) in self.stats.iter() { writeln!(self.w, "STAT {} {}", k, v).unwrap(); }
        writeln!(self.w, "DONE {}", self.next_id).unwrap();
        self.w.flush().unwrap();
    }
}
