//! Line-protocol encoding of suiron values (prefix tokens, see lean/SuironVerif/Model/Codec.lean).
use suiron::*;

pub fn hex(s: &str) -> String {
    let mut o = String::new();
    for b in s.as_bytes() { o.push_str(&format!("{:02x}", b)); }
    o
}

pub fn enc_term(t: &Unifiable, out: &mut String) {
    match t {
        Unifiable::Nil => out.push_str("N"),
        Unifiable::Anonymous => out.push_str("_"),
        Unifiable::Atom(s) => { out.push_str("A:"); out.push_str(&hex(s)); },
        Unifiable::SFloat(f) => { out.push_str(&format!("F:{}", canon_bits(*f))); },
        Unifiable::SInteger(i) => { out.push_str(&format!("I:{}", i)); },
        Unifiable::LogicVar{id, name} => { out.push_str(&format!("V:{}:{}", id, hex(name))); },
        Unifiable::SComplex(args) => {
            out.push_str(&format!("C:{}", args.len()));
            for a in args { out.push(' '); enc_term(a, out); }
        },
        Unifiable::SLinkedList{term, next, count, tail_var} => {
            out.push_str(&format!("L:{}:{} ", count, if *tail_var {1} else {0}));
            enc_term(term, out); out.push(' '); enc_term(next, out);
        },
        Unifiable::SFunction{name, terms} => {
            out.push_str(&format!("Fn:{}:{}", hex(name), terms.len()));
            for a in terms { out.push(' '); enc_term(a, out); }
        },
    }
}

/// NaN payloads are not compared: every NaN is the canonical quiet NaN.
pub fn canon_bits(f: f64) -> u64 {
    if f.is_nan() { 0x7ff8_0000_0000_0000 } else { f.to_bits() }
}

pub fn term_str(t: &Unifiable) -> String { let mut s = String::new(); enc_term(t, &mut s); s }

pub fn enc_subst(ss: &SubstitutionSet) -> String {
    let mut o = format!("S:{}", ss.len());
    for e in ss.iter() {
        match e {
            None => o.push_str(" -"),
            Some(t) => { o.push(' '); enc_term(t, &mut o); },
        }
    }
    o
}

// ---------------------------------------------------------------- decoding (replays)

pub fn unhex(h: &str) -> Option<String> {
    if h.len() % 2 != 0 { return None; }
    let mut bytes = vec![];
    let cs: Vec<char> = h.chars().collect();
    for i in (0..cs.len()).step_by(2) {
        let x = cs[i].to_digit(16)?; let y = cs[i + 1].to_digit(16)?;
        bytes.push((x * 16 + y) as u8);
    }
    String::from_utf8(bytes).ok()
}

pub fn dec_term(toks: &[&str], i: &mut usize) -> Option<Unifiable> {
    let t = *toks.get(*i)?; *i += 1;
    let p: Vec<&str> = t.split(':').collect();
    match p[0] {
        "N" => Some(Unifiable::Nil),
        "_" => Some(Unifiable::Anonymous),
        "A" => Some(Unifiable::Atom(unhex(p.get(1)?)?)),
        "F" => Some(Unifiable::SFloat(f64::from_bits(p.get(1)?.parse().ok()?))),
        "I" => Some(Unifiable::SInteger(p.get(1)?.parse().ok()?)),
        "V" => Some(Unifiable::LogicVar{id: p.get(1)?.parse().ok()?, name: unhex(p.get(2)?)?}),
        "C" => {
            let n: usize = p.get(1)?.parse().ok()?;
            let mut v = vec![]; for _ in 0..n { v.push(dec_term(toks, i)?); }
            Some(Unifiable::SComplex(v))
        },
        "L" => {
            let count: usize = p.get(1)?.parse().ok()?;
            let tv = *p.get(2)? == "1";
            let term = dec_term(toks, i)?; let next = dec_term(toks, i)?;
            Some(Unifiable::SLinkedList{term: Box::new(term), next: Box::new(next), count, tail_var: tv})
        },
        "Fn" => {
            let name = unhex(p.get(1)?)?;
            let n: usize = p.get(2)?.parse().ok()?;
            let mut v = vec![]; for _ in 0..n { v.push(dec_term(toks, i)?); }
            Some(Unifiable::SFunction{name, terms: v})
        },
        _ => None,
    }
}

// ---------------------------------------------------------------- goals and rules

pub fn enc_goal(g: &Goal, out: &mut String) {
    match g {
        Goal::Nil => out.push_str("G0"),
        Goal::ComplexGoal(t) => { out.push_str("Gc "); enc_term(t, out); },
        Goal::BuiltInGoal(b) => {
            match &b.terms {
                None => out.push_str(&format!("Gb:{}:0:0", hex(&b.functor))),
                Some(ts) => { out.push_str(&format!("Gb:{}:1:{}", hex(&b.functor), ts.len())); for t in ts { out.push(' '); enc_term(t, out); } },
            }
        },
        Goal::OperatorGoal(op) => {
            let (tag, gs) = match op {
                Operator::And(gs) => ("Ga", gs), Operator::Or(gs) => ("Go", gs),
                Operator::Time(gs) => ("Gt", gs), Operator::Not(gs) => ("Gn", gs),
            };
            out.push_str(&format!("{}:{}", tag, gs.len()));
            for g in gs { out.push(' '); enc_goal(g, out); }
        },
    }
}

pub fn enc_rule(r: &Rule, out: &mut String) {
    out.push_str("R "); enc_term(&r.head, out); out.push(' '); enc_goal(&r.body, out);
}

pub fn dec_goal(toks: &[&str], i: &mut usize) -> Option<Goal> {
    let t = *toks.get(*i)?; *i += 1;
    let p: Vec<&str> = t.split(':').collect();
    match p[0] {
        "G0" => Some(Goal::Nil),
        "Gc" => Some(Goal::ComplexGoal(dec_term(toks, i)?)),
        "Gb" => {
            let name = unhex(p.get(1)?)?;
            let has = *p.get(2)? == "1";
            let n: usize = p.get(3)?.parse().ok()?;
            if !has { return Some(Goal::BuiltInGoal(BuiltInPredicate::new(name, None))); }
            let mut v = vec![]; for _ in 0..n { v.push(dec_term(toks, i)?); }
            Some(Goal::BuiltInGoal(BuiltInPredicate::new(name, Some(v))))
        },
        "Ga" | "Go" | "Gt" | "Gn" => {
            let n: usize = p.get(1)?.parse().ok()?;
            let mut v = vec![]; for _ in 0..n { v.push(dec_goal(toks, i)?); }
            Some(Goal::OperatorGoal(match p[0] { "Ga" => Operator::And(v), "Go" => Operator::Or(v), "Gt" => Operator::Time(v), _ => Operator::Not(v) }))
        },
        _ => None,
    }
}

pub fn dec_rule(toks: &[&str], i: &mut usize) -> Option<Rule> {
    if *toks.get(*i)? != "R" { return None; }
    *i += 1;
    let head = dec_term(toks, i)?; let body = dec_goal(toks, i)?;
    Some(Rule{head, body})
}
