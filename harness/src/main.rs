//! suiron_harness: runs the real suiron implementation on generated inputs and prints
//! CASE / IMPL / ORACLE / STAT lines (see out.rs).  Usage:
//!   suiron_harness <suite> --props C06,C07 --seed N --n N [--exhaustive] [--shard i/n] [--anon] [--func]
mod prng; mod codec; mod gen; mod refuni; mod refarith; mod out; mod capture; mod suite_unify; mod suite_engine; mod suite_builtins; mod suite_misc; mod suite_timer; mod suite_parse;

use out::Out;

/// readable form of an encoded term (for oracle messages)
pub fn tools_pretty(s: &str) -> String {
    let toks: Vec<&str> = s.split_whitespace().collect();
    if toks.get(0) == Some(&"ok") { let mut i = 1; if let Some(t) = codec::dec_term(&toks, &mut i) { return format!("{:?}", t); } }
    s.to_string()
}

fn arg_val(args: &[String], key: &str) -> Option<String> {
    args.iter().position(|a| a == key).and_then(|i| args.get(i + 1).cloned())
}
fn has(args: &[String], key: &str) -> bool { args.iter().any(|a| a == key) }

fn main() {
    // the implementation's panics are outcomes, not noise
    std::panic::set_hook(Box::new(|_| {}));
    let args: Vec<String> = std::env::args().collect();
    if args.len() < 2 { eprintln!("usage: suiron_harness <suite> ..."); std::process::exit(2); }
    let suite = args[1].clone();
    let seed: u64 = arg_val(&args, "--seed").and_then(|s| s.parse().ok()).unwrap_or(1);
    let n: usize = arg_val(&args, "--n").and_then(|s| s.parse().ok()).unwrap_or(100);
    let props: Vec<String> = arg_val(&args, "--props").map(|s| s.split(',').map(|x| x.to_string()).collect()).unwrap_or(vec![]);
    let (shard, nshards) = match arg_val(&args, "--shard") {
        Some(s) => { let v: Vec<usize> = s.split('/').map(|x| x.parse().unwrap()).collect(); (v[0], v[1]) },
        None => (0, 1),
    };
    let mut out = Out::new();
    out.skip = arg_val(&args, "--skip").and_then(|s| s.parse().ok()).unwrap_or(0);
    // watchdog: a single case that runs longer than the limit ends the process (exit code 86);
    // check.py then asks the model about that case and resumes after it
    let limit_ms: u64 = arg_val(&args, "--case-timeout-ms").and_then(|s| s.parse().ok()).unwrap_or(20000);
    std::thread::spawn(move || loop {
        std::thread::sleep(std::time::Duration::from_millis(200));
        let st = out::CASE_START_MS.load(std::sync::atomic::Ordering::SeqCst);
        if st != 0 && out::now_ms() > st + limit_ms { std::process::exit(86); }
    });
    // run on a big stack: deep recursion of the implementation must not be the harness' limit
    let child = std::thread::Builder::new().stack_size(256 << 20).spawn(move || {
        match suite.as_str() {
            "unify" => {
                let cfg = suite_unify::Cfg{props, renamed: false};
                let mut u = gen::Universe::c06();
                let cfg = suite_unify::Cfg{props: cfg.props, renamed: has(&args, "--renamed")};
                u.anon = has(&args, "--anon"); u.func = has(&args, "--func"); u.odd_floats = has(&args, "--oddfloats");
                if let Some(body) = arg_val(&args, "--replay-case") {
                    match suite_unify::dec_case(&body) { Some(c) => suite_unify::emit(&mut out, &cfg, &c), None => { eprintln!("cannot decode case"); std::process::exit(2); } }
                }
                else if has(&args, "--exhaustive") { suite_unify::run_exhaustive(&mut out, &cfg, u.anon, u.func, shard, nshards); }
                else { suite_unify::run_random(&mut out, &cfg, &u, seed, n); }
            },
            "engine" => {
                let cfg = suite_engine::Cfg{props};
                let mut w = suite_engine::Weights::all();
                if has(&args, "--pure") { w = suite_engine::Weights::pure_(); }
                if let Some(v) = arg_val(&args, "--cut") { w.cut = v.parse().unwrap(); }
                if let Some(v) = arg_val(&args, "--not") { w.not = v.parse().unwrap(); }
                if let Some(v) = arg_val(&args, "--print") { w.print = v.parse().unwrap(); }
                if let Some(v) = arg_val(&args, "--time") { w.time = v.parse().unwrap(); }
                if has(&args, "--cut-in-not") { w.cut_in_not = true; }
                if let Some(body) = arg_val(&args, "--replay-case") {
                    match suite_engine::dec_case(&body) { Some(c) => suite_engine::emit(&mut out, &cfg, &c), None => { eprintln!("cannot decode case"); std::process::exit(2); } }
                }
                else if has(&args, "--alpha") { suite_engine::run_c11(&mut out, &cfg, &w, seed, n); }
                else if has(&args, "--exhaustive") { suite_engine::run_exhaustive(&mut out, &cfg, shard, nshards); }
                else { suite_engine::run_random(&mut out, &cfg, &w, seed, n); }
            },
            "builtins" => {
                let cfg = suite_engine::Cfg{props};
                let kind = arg_val(&args, "--kind").unwrap_or("cmp".into());
                if let Some(body) = arg_val(&args, "--replay-case") {
                    match suite_engine::dec_case(&body) { Some(c) => suite_engine::emit(&mut out, &cfg, &c), None => { eprintln!("cannot decode case"); std::process::exit(2); } }
                } else {
                    let ex = has(&args, "--exhaustive");
                    match kind.as_str() {
                        "cmp" => if ex { suite_builtins::run_cmp_exhaustive(&mut out, &cfg, shard, nshards) } else { suite_builtins::run_cmp_random(&mut out, &cfg, seed, n) },
                        "arith" => if ex { suite_builtins::run_arith_exhaustive(&mut out, &cfg, shard, nshards) } else { suite_builtins::run_arith_random(&mut out, &cfg, seed, n) },
                        "append" => suite_builtins::run_append_random(&mut out, &cfg, seed, n, has(&args, "--no-tails")),
                        "c17" => suite_builtins::run_c17_random(&mut out, &cfg, seed, n, has(&args, "--only-filter"), has(&args, "--no-tails")),
                        _ => { eprintln!("unknown kind"); std::process::exit(2); },
                    }
                }
            },
            "timer" => {
                let cfg = suite_engine::Cfg{props};
                if let Some(body) = arg_val(&args, "--replay-case") {
                    if body == "timer-real" { suite_timer::run_real_timer(&mut out, &cfg, 2); }
                    else if body == "timer-stopped" { suite_timer::run_stopped(&mut out, &cfg, seed, n); }
                    else { match suite_timer::dec_case(&body) { Some(c) => suite_timer::emit(&mut out, &cfg, &c), None => { eprintln!("cannot decode case"); std::process::exit(2); } } }
                }
                else if has(&args, "--real") { suite_timer::run_real_timer(&mut out, &cfg, n); }
                else if has(&args, "--stopped") { suite_timer::run_stopped(&mut out, &cfg, seed, n); }
                else if has(&args, "--all-ticks") { suite_timer::run_all_ticks(&mut out, &cfg, seed, n); }
                else { suite_timer::run_random(&mut out, &cfg, seed, n, has(&args, "--interleave")); }
            },
            "parse" => {
                let cfg = suite_engine::Cfg{props};
                let kind = arg_val(&args, "--kind").unwrap_or("grammar".into());
                if let Some(body) = arg_val(&args, "--replay-case") {
                    let toks: Vec<&str> = body.split_whitespace().collect();
                    match toks[0] {
                        "parse" => { let s = codec::unhex(toks.get(2).unwrap_or(&"")).unwrap_or_default(); suite_parse::emit_parse(&mut out, &cfg, toks[1], &s, None); },
                        "contexts" => { let s = codec::unhex(toks.get(1).unwrap_or(&"")).unwrap_or_default(); suite_parse::emit_context(&mut out, &cfg, &s); },
                        _ => { eprintln!("replay of this case kind re-runs the generator; use the seed"); },
                    }
                } else {
                    match kind.as_str() {
                        "grammar" => suite_parse::run_grammar(&mut out, &cfg, seed, n),
                        "mutate" => suite_parse::run_mutations(&mut out, &cfg, seed, n),
                        "random" => suite_parse::run_random_strings(&mut out, &cfg, seed, n),
                        "strings" => suite_parse::run_exhaustive_strings(&mut out, &cfg, n, shard, nshards),
                        "goalstrings" => suite_parse::run_exhaustive_goal_strings(&mut out, &cfg, n, shard, nshards),
                        "listtokens" => suite_parse::run_exhaustive_list_tokens(&mut out, &cfg, n, shard, nshards),
                        "spellings" => suite_parse::run_spellings(&mut out, &cfg, seed, n),
                        "contexts" => suite_parse::run_contexts(&mut out, &cfg, seed, n),
                        "ctxstrings" => suite_parse::run_exhaustive_contexts(&mut out, &cfg, n, shard, nshards),
                        "reader" => suite_parse::run_reader(&mut out, &cfg, seed, n),
                        _ => { eprintln!("unknown kind"); std::process::exit(2); },
                    }
                }
            },
            "rename" => {
                let cfg = suite_engine::Cfg{props};
                if let Some(body) = arg_val(&args, "--replay-case") {
                    let toks: Vec<&str> = body.split_whitespace().collect();
                    let c: usize = toks[1].parse().unwrap(); let mut i = 2;
                    let rule = codec::dec_rule(&toks, &mut i).unwrap();
                    suite_misc::emit_rename(&mut out, &cfg, &rule, c);
                }
                else if has(&args, "--exhaustive") { suite_misc::run_rename_exhaustive(&mut out, &cfg); }
                else { suite_misc::run_rename(&mut out, &cfg, seed, n); }
            },
            "lists" => {
                let cfg = suite_engine::Cfg{props};
                if let Some(body) = arg_val(&args, "--replay-case") {
                    let toks: Vec<&str> = body.split_whitespace().collect();
                    let proper = toks[0] == "mkproper"; let vbar = toks[1] == "1"; let k: usize = toks[2].parse().unwrap();
                    let mut i = 3; let mut ts = vec![]; for _ in 0..k { ts.push(codec::dec_term(&toks, &mut i).unwrap()); }
                    suite_misc::emit_mklist(&mut out, &cfg, vbar, &ts, proper);
                }
                else if has(&args, "--exhaustive") { suite_misc::run_lists_exhaustive(&mut out, &cfg); }
                else { suite_misc::run_lists(&mut out, &cfg, seed, n); }
            },
            _ => { eprintln!("unknown suite {}", suite); std::process::exit(2); },
        }
        out.finish();
    }).unwrap();
    child.join().unwrap();
}
