//! Suite `builtins`: one built-in goal at the end of a clause body, its operands given literally
//! or through chains of bound variables.  Cases are engine cases (same CASE/IMPL format); the
//! oracles state the documented results (C12, C14, C16, C17) on the implementation's answers.
use suiron::*;
use crate::prng::Rng;
use crate::gen::proper_list;
use crate::codec::*;
use crate::out::Out;
use crate::suite_engine::{Case, Cfg, emit_info};
use crate::refarith::eval_ref;

struct Ctx { nvars: usize, prior: Vec<Goal>, no_tails: bool, need_cp: bool }
impl Ctx {
    fn new() -> Ctx { Ctx{nvars: 0, prior: vec![], no_tails: false, need_cp: false} }
    fn fresh(&mut self) -> Unifiable { self.nvars += 1; logic_var!(format!("$V{}", self.nvars)) }
    /// the value written literally, or reached through a chain of 1-3 bound variables
    fn operand(&mut self, r: &mut Rng, value: Unifiable) -> Unifiable {
        let depth = match r.below(10) { 0..=4 => 0, 5..=7 => 1, 8 => 2, _ => 3 };
        let mut cur = value;
        for _ in 0..depth {
            let v = self.fresh();
            // either orientation of the binding goal
            if r.chance(1, 2) { self.prior.push(unify_goal(v.clone(), cur)); } else { self.prior.push(unify_goal(cur, v.clone())); }
            cur = v;
        }
        cur
    }
}

fn unify_goal(a: Unifiable, b: Unifiable) -> Goal { Goal::BuiltInGoal(BuiltInPredicate::new("unify".into(), Some(vec![a, b]))) }
fn bip(name: &str, args: Vec<Unifiable>) -> Goal { Goal::BuiltInGoal(BuiltInPredicate::new(name.to_string(), Some(args))) }

/// build the engine case: `t($V1..$Vn) :- prior..., goal.`  query `t($Q1..$Qn)`
fn make_case(ctx: &Ctx, goal: Option<Goal>) -> Case {
    let mut head = vec![atom!("t")]; let mut query = vec![atom!("t")];
    for i in 1..=ctx.nvars { head.push(logic_var!(format!("$V{}", i))); query.push(logic_var!(format!("$Q{}", i))); }
    let mut gs = ctx.prior.clone();
    if let Some(g) = goal { gs.push(g); }
    let body = if gs.is_empty() { Goal::Nil } else if gs.len() == 1 { gs.pop().unwrap() } else { Goal::OperatorGoal(Operator::And(gs)) };
    let mut rules = vec![Rule{head: Unifiable::SComplex(head), body}];
    if ctx.need_cp {
        // cp([], []).   cp([$H | $T], [$H | $T2]) :- cp($T, $T2).
        // a list copied by this recursive rule is a chain of tail variables that all have the NAME $T2, under different ids
        rules.push(Rule{head: scomplex!(atom!("cp"), proper_list(vec![], None), proper_list(vec![], None)), body: Goal::Nil});
        rules.push(Rule{head: scomplex!(atom!("cp"), proper_list(vec![logic_var!("$H")], Some(logic_var!("$T"))), proper_list(vec![logic_var!("$H")], Some(logic_var!("$T2")))),
                        body: Goal::ComplexGoal(scomplex!(atom!("cp"), logic_var!("$T"), logic_var!("$T2")))});
    }
    Case{rules, query, max_calls: 4, extra: 1}
}

/// argument i (1-based) of the resolved answer `t(...)`, as encoded text
fn answer_arg(ans: &str, i: usize) -> Option<Unifiable> {
    let toks: Vec<&str> = ans.split_whitespace().collect();
    let mut k = 0;
    match dec_term(&toks, &mut k)? { Unifiable::SComplex(args) => args.get(i).cloned(), _ => None }
}

fn var_index(v: &Unifiable) -> usize { if let Unifiable::LogicVar{name, ..} = v { name[2..].parse().unwrap() } else { 0 } }

// ------------------------------------------------------------------------------ C14

/// doubles that are neighbours (1 ulp apart), tiny, or integers next to a double
fn near_floats() -> Vec<Unifiable> {
    vec![SFloat(0.1), SFloat(0.10000000000000002), SFloat(0.3), SFloat(0.30000000000000004), SFloat(1.0000000000000002), SFloat(0.9999999999999999),
         SFloat(1e-300), SFloat(-1e-300), SFloat(5e-324), SFloat(1.5), SFloat(-1.0)]
}

fn gen_cmp_operand(r: &mut Rng) -> Unifiable {
    if r.chance(1, 4) { return r.pick(&near_floats()).clone(); }
    match r.below(24) {
        0 => SInteger(0), 1 => SInteger(1), 2 => SInteger(-1), 3 => SInteger(2), 4 => SInteger(i64::MAX), 5 => SInteger(i64::MIN),
        6 => SInteger(9007199254740993), 7 => SInteger(9007199254740992),
        8 => SFloat(0.0), 9 => SFloat(-0.0), 10 => SFloat(1.0), 11 => SFloat(0.5), 12 => SFloat(-1.5), 13 => SFloat(9007199254740992.0),
        14 => SFloat(2.0), 15 => SFloat(9.223372036854775807e18),
        16 => atom!("a"), 17 => atom!("b"), 18 => atom!("ab"), 19 => atom!("a b"), 20 => atom!("é"), 21 => atom!("Z"),
        22 => atom!("10"), _ => atom!("9"),
    }
}
fn gen_nonconst(r: &mut Rng) -> Unifiable {
    match r.below(3) { 0 => proper_list(vec![SInteger(1)], None), 1 => scomplex!(atom!("f"), SInteger(1)), _ => proper_list(vec![], None) }
}
const CMP: [&str; 5] = ["equal", "less_than", "less_than_or_equal", "greater_than", "greater_than_or_equal"];

fn cmp_expected(op: &str, a: &Unifiable, b: &Unifiable) -> bool {
    use std::cmp::Ordering::*;
    let ord_ok = |o: Option<std::cmp::Ordering>, eq: bool| -> bool {
        match op { "equal" => eq, "less_than" => o == Some(Less), "less_than_or_equal" => o == Some(Less) || eq,
                   "greater_than" => o == Some(Greater), _ => o == Some(Greater) || eq }
    };
    match (a, b) {
        (Unifiable::Atom(x), Unifiable::Atom(y)) => ord_ok(Some(x.cmp(y)), x == y),
        (Unifiable::SInteger(x), Unifiable::SInteger(y)) => ord_ok(Some(x.cmp(y)), x == y),
        (Unifiable::SFloat(x), Unifiable::SFloat(y)) => ord_ok(x.partial_cmp(y), x == y),
        (Unifiable::SFloat(x), Unifiable::SInteger(y)) => { let y = *y as f64; ord_ok(x.partial_cmp(&y), *x == y) },
        (Unifiable::SInteger(x), Unifiable::SFloat(y)) => { let x = *x as f64; ord_ok(x.partial_cmp(y), x == *y) },
        _ => false,
    }
}

pub fn emit_cmp(out: &mut Out, cfg: &Cfg, op: &str, va: Option<Unifiable>, vb: Option<Unifiable>, r: &mut Rng, chain: bool) {
    let mut ctx = Ctx::new();
    let mut mk = |ctx: &mut Ctx, r: &mut Rng, v: &Option<Unifiable>| -> Unifiable {
        match v { Some(x) => if chain { ctx.operand(r, x.clone()) } else { x.clone() }, None => ctx.fresh() }
    };
    let a = mk(&mut ctx, r, &va); let b = mk(&mut ctx, r, &vb);
    let with = make_case(&ctx, Some(bip(op, vec![a, b])));
    let without = make_case(&ctx, None);
    let info = match emit_info(out, cfg, &with) { Some(i) => i, None => { let _ = emit_info(out, cfg, &without); return; } };
    let base = emit_info(out, cfg, &without);
    if !cfg.want("C14") { return; }
    let expected = match (&va, &vb) { (Some(x), Some(y)) => cmp_expected(op, x, y), _ => false };
    let n_ans = info.answers.iter().filter(|x| x.is_some()).count();
    let verdict: Result<(), String> = (|| {
        if info.rec.ends_with("P") { return Err("comparison panicked".into()); }
        if expected && n_ans != 1 { return Err(format!("operands compare accordingly but the goal gave {} answers (expected exactly one)", n_ans)); }
        if !expected && n_ans != 0 { return Err(format!("the goal succeeded {} time(s) although it must fail", n_ans)); }
        if expected {
            if let Some(b) = &base { if b.substs.first() != info.substs.first() { return Err("the comparison changed the bindings".into()); } }
        }
        Ok(())
    })();
    match verdict { Ok(()) => out.oracle(info.id, "C14", true, ""), Err(m) => out.oracle(info.id, "C14", false, &m) }
}

pub fn run_cmp_random(out: &mut Out, cfg: &Cfg, seed: u64, n: usize) {
    let mut r = Rng::new(seed);
    for _ in 0..n {
        let op = *r.pick(&CMP);
        let pick = |r: &mut Rng| -> Option<Unifiable> {
            match r.below(12) { 0 => None, 1 => Some(gen_nonconst(r)), _ => Some(gen_cmp_operand(r)) }
        };
        let a = pick(&mut r); let mut b = pick(&mut r);
        if r.chance(1, 5) { b = a.clone(); }
        emit_cmp(out, cfg, op, a, b, &mut r, true);
    }
}

/// the exhaustive table: 24 operands x 24 operands x 5 operators, literal and chained
pub fn run_cmp_exhaustive(out: &mut Out, cfg: &Cfg, shard: usize, nshards: usize) {
    let mut ops = vec![];
    let mut r = Rng::new(7);
    // enumerate the 24 fixed operands deterministically
    let fixed: Vec<Unifiable> = vec![
        SInteger(0), SInteger(1), SInteger(-1), SInteger(2), SInteger(i64::MAX), SInteger(i64::MIN), SInteger(9007199254740993), SInteger(9007199254740992),
        SFloat(0.0), SFloat(-0.0), SFloat(1.0), SFloat(0.5), SFloat(-1.5), SFloat(9007199254740992.0), SFloat(2.0), SFloat(9.223372036854775807e18),
        atom!("a"), atom!("b"), atom!("ab"), atom!("a b"), atom!("é"), atom!("Z"), atom!("10"), atom!("9")];
    for f in fixed { ops.push(Some(f)); }
    for f in near_floats() { ops.push(Some(f)); }
    ops.push(None); ops.push(Some(proper_list(vec![SInteger(1)], None))); ops.push(Some(scomplex!(atom!("f"), SInteger(1))));
    let mut idx = 0;
    for op in CMP { for a in &ops { for b in &ops { for chain in [false, true] {
        idx += 1; if idx % nshards != shard { continue; }
        emit_cmp(out, cfg, op, a.clone(), b.clone(), &mut r, chain);
    } } } }
}

// ------------------------------------------------------------------------------ C12

fn gen_number(r: &mut Rng) -> Unifiable {
    match r.below(16) {
        0 => SInteger(0), 1 => SInteger(1), 2 => SInteger(2), 3 => SInteger(-3), 4 => SInteger(7), 5 => SInteger(-7), 6 => SInteger(1000000007),
        7 => SInteger(3037000499), 8 => SFloat(0.0), 9 => SFloat(1.0), 10 => SFloat(2.5), 11 => SFloat(-0.5), 12 => SFloat(1e300), 13 => SFloat(-0.0),
        14 => SFloat(3.0), _ => SInteger(-2),
    }
}
const ARITH: [&str; 4] = ["add", "subtract", "multiply", "divide"];

fn same_number(a: &Unifiable, b: &Unifiable) -> bool {
    match (a, b) {
        (Unifiable::SInteger(x), Unifiable::SInteger(y)) => x == y,
        (Unifiable::SFloat(x), Unifiable::SFloat(y)) => (x.is_nan() && y.is_nan()) || x == y,
        _ => false,
    }
}

pub fn emit_arith(out: &mut Out, cfg: &Cfg, name: &str, values: Vec<Unifiable>, r: &mut Rng, form: usize) {
    let mut ctx = Ctx::new();
    let res = ctx.fresh();
    let mut args = vec![];
    for v in &values { args.push(ctx.operand(r, v.clone())); }
    let f = Unifiable::SFunction{name: name.to_string(), terms: args};
    // forms: result variable on the left, on the right, or comparison with the expected constant
    let goal = match form { 0 => unify_goal(res.clone(), f), _ => unify_goal(f, res.clone()) };
    let c = make_case(&ctx, Some(goal));
    let info = match emit_info(out, cfg, &c) { Some(i) => i, None => return };
    if !cfg.want("C12") { return; }
    let expected = eval_ref(name, &values);
    let verdict: Result<(), String> = (|| {
        let exp = match &expected { Some(e) => e, None => return Ok(()) };  // overflow / integer division by zero: outside the claim
        if info.rec.ends_with("P") { return Err("arithmetic panicked on ground numeric arguments".into()); }
        let ans = match info.answers.first() { Some(Some(a)) => a, _ => return Err("no answer although the function is evaluable".into()) };
        let got = answer_arg(ans, var_index(&res)).ok_or("cannot read the result")?;
        if !same_number(&got, exp) { return Err(format!("{}{:?} evaluated to {} but the documented fold gives {}", name, values.iter().map(|v| v.to_string()).collect::<Vec<_>>(), got, exp)); }
        if info.answers.iter().filter(|x| x.is_some()).count() != 1 { return Err("more than one answer".into()); }
        Ok(())
    })();
    match verdict { Ok(()) => out.oracle(info.id, "C12", true, ""), Err(m) => out.oracle(info.id, "C12", false, &m) }
}

pub fn run_arith_random(out: &mut Out, cfg: &Cfg, seed: u64, n: usize) {
    let mut r = Rng::new(seed);
    for _ in 0..n {
        let name = *r.pick(&ARITH);
        let k = 1 + r.below(4);
        let mut vals = vec![]; for _ in 0..k { vals.push(gen_number(&mut r)); }
        let form = r.below(2);
        emit_arith(out, cfg, name, vals, &mut r, form);
    }
}

pub fn run_arith_exhaustive(out: &mut Out, cfg: &Cfg, shard: usize, nshards: usize) {
    let nums: Vec<Unifiable> = vec![SInteger(0), SInteger(1), SInteger(-3), SInteger(7), SFloat(0.0), SFloat(2.5), SFloat(-0.5), SFloat(-0.0)];
    let mut r = Rng::new(11);
    let mut idx = 0;
    for name in ARITH {
        for a in &nums { idx += 1; if idx % nshards == shard { emit_arith(out, cfg, name, vec![a.clone()], &mut r, 0); } }
        for a in &nums { for b in &nums { idx += 1; if idx % nshards == shard { emit_arith(out, cfg, name, vec![a.clone(), b.clone()], &mut r, idx % 2); } } }
        for a in &nums { for b in &nums { for c in &nums { idx += 1; if idx % nshards == shard { emit_arith(out, cfg, name, vec![a.clone(), b.clone(), c.clone()], &mut r, idx % 2); } } } }
    }
}

// ------------------------------------------------------------------------------ C16 / C17

/// a list value: elements, each possibly nested / empty list; returns (term as written, logical elements)
fn gen_elem(r: &mut Rng, depth: usize) -> Unifiable {
    match r.below(10) {
        0 | 1 => atom!("a"), 2 => atom!("b"), 3 => SInteger(1), 4 => SFloat(2.5), 5 => scomplex!(atom!("f"), atom!("x")),
        6 => proper_list(vec![], None),
        7 | 8 if depth < 2 => { let n = 1 + r.below(2); let mut e = vec![]; for _ in 0..n { e.push(gen_elem(r, depth + 1)); } proper_list(e, None) },
        _ => atom!("c"),
    }
}

/// a list argument, possibly split into a front part and a bound tail variable: `[e1, e2 | $T]`, `$T = [e3 ...]`
fn gen_list_arg(ctx: &mut Ctx, r: &mut Rng) -> (Unifiable, Vec<Unifiable>) {
    let n = r.below(5);
    let mut elems = vec![]; for _ in 0..n { elems.push(gen_elem(r, 0)); }
    gen_list_arg_of(ctx, r, elems)
}

/// write the given logical elements as a list argument: some elements through bound variables,
/// possibly a front part plus a bound tail variable, possibly behind a chain of variables
fn gen_list_arg_of(ctx: &mut Ctx, r: &mut Rng, elems: Vec<Unifiable>) -> (Unifiable, Vec<Unifiable>) {
    let n = elems.len();
    let mut written_elems = vec![];
    for e in &elems {
        if r.chance(1, 4) && !matches!(e, Unifiable::SLinkedList{..}) { let v = ctx.fresh(); ctx.prior.push(unify_goal(v.clone(), e.clone())); written_elems.push(v); }
        else { written_elems.push(e.clone()); }
    }
    let logical = elems.clone();
    let elems = written_elems;
    let _ = &logical;
    if n >= 2 && !ctx.no_tails && r.chance(1, 5) {
        // the list reaches the built-in as the copy made by a recursive rule: `cp([e1, ..., en], $L)` binds $L to a chain of
        // n tail variables of the same name and different ids
        let l = ctx.fresh();
        ctx.prior.push(Goal::ComplexGoal(scomplex!(atom!("cp"), proper_list(elems.clone(), None), l.clone())));
        ctx.need_cp = true;
        let w = ctx.operand(r, l);
        (w, logical)
    } else if n >= 2 && !ctx.no_tails && r.chance(1, 3) {
        // the list is written in 2-4 pieces chained through bound tail variables:
        // `[e1 | $T1]`, `$T1 = [e2, e3 | $T2]`, `$T2 = [e4]` (the last piece may be the empty list)
        let mut cuts = vec![1 + r.below(n - 1)];
        while r.chance(1, 2) && cuts.len() < 3 {
            let last = *cuts.last().unwrap();
            if last >= n { break; }
            cuts.push(last + 1 + r.below(n - last));
        }
        // pieces: [0..cuts[0]), [cuts[0]..cuts[1]), ..., [cuts[last]..n)
        let mut bounds = vec![0]; bounds.extend(cuts.iter().cloned()); bounds.push(n);
        let npieces = bounds.len() - 1;
        // (created in either order: the head of the test rule lists the variables in the order of creation, so this decides whether
        //  the ids grow or shrink along the chain — seeded change C16r11 followed a chain only while the ids grew)
        let mut tails: Vec<Unifiable> = (0..npieces - 1).map(|_| ctx.fresh()).collect();
        if r.chance(1, 2) { tails.reverse(); }
        // bind from the back so that every tail is bound before the piece that mentions it is used
        for pi in (1..npieces).rev() {
            let piece = elems[bounds[pi]..bounds[pi + 1]].to_vec();
            let tail = if pi + 1 < npieces { Some(tails[pi].clone()) } else { None };
            let back = if piece.is_empty() { match tail { Some(t) => t, None => proper_list(vec![], None) } } else { proper_list(piece, tail) };
            ctx.prior.push(unify_goal(tails[pi - 1].clone(), back));
        }
        let written = proper_list(elems[..bounds[1]].to_vec(), Some(tails[0].clone()));
        let w = ctx.operand(r, written);
        (w, logical)
    } else {
        let written = proper_list(elems.clone(), None);
        let w = ctx.operand(r, written);
        (w, logical)
    }
}

fn enc_list(elems: &[Unifiable]) -> String { term_str(&proper_list(elems.to_vec(), None)) }

/// a resolved list whose tail variable was bound to a list is the same list logically as the proper list of all
/// its elements: rebuild it (recursively) so that results can be compared with the expected proper list
fn normalize_lists(t: &Unifiable) -> Unifiable {
    match t {
        Unifiable::SLinkedList{..} => {
            let mut elems = vec![]; let mut tail: Option<Unifiable> = None;
            let mut cur = t;
            loop {
                match cur {
                    Unifiable::SLinkedList{term, next, tail_var, ..} => {
                        if **term == Unifiable::Nil { break; }
                        if *tail_var {
                            match &**term { Unifiable::SLinkedList{..} => { cur = &**term; continue; }, other => { tail = Some(normalize_lists(other)); break; } }
                        }
                        elems.push(normalize_lists(term)); cur = &**next;
                    },
                    _ => break,
                }
            }
            proper_list(elems, tail)
        },
        Unifiable::SComplex(a) => Unifiable::SComplex(a.iter().map(normalize_lists).collect()),
        _ => t.clone(),
    }
}

pub fn run_append_random(out: &mut Out, cfg: &Cfg, seed: u64, n: usize, no_tails: bool) {
    let mut r = Rng::new(seed);
    for _ in 0..n {
        let mut ctx = Ctx::new(); ctx.no_tails = no_tails;
        let res = ctx.fresh();
        let k = 1 + r.below(4);
        let mut args = vec![]; let mut expected: Vec<Unifiable> = vec![];
        for _ in 0..k {
            if r.chance(3, 5) { let (w, es) = gen_list_arg(&mut ctx, &mut r); args.push(w); expected.extend(es); }
            else { let v = match r.below(4) { 0 => atom!("z"), 1 => SInteger(5), 2 => scomplex!(atom!("g"), atom!("y")), _ => SFloat(0.5) };
                   let w = ctx.operand(&mut r, v.clone()); args.push(w); expected.push(v); }
        }
        // the output argument: an unbound variable, or a variable already bound to an open list `[$V1, .. | $T]`
        // (then append succeeds exactly when the result has at least that many elements), or to a closed list
        // of variables (exactly that many)
        let mut min_len: Option<usize> = None; let mut exact: Option<usize> = None;
        if r.chance(1, 4) {
            let k = 1 + r.below(3);
            let vs: Vec<Unifiable> = (0..k).map(|_| ctx.fresh()).collect();
            if r.chance(2, 3) { let t = ctx.fresh(); ctx.prior.push(unify_goal(res.clone(), proper_list(vs, Some(t)))); min_len = Some(k); }
            else { ctx.prior.push(unify_goal(res.clone(), proper_list(vs, None))); exact = Some(k); }
        }
        // ... or the anonymous variable, which unifies with every result
        let anon_out = min_len.is_none() && exact.is_none() && r.chance(1, 8);
        args.push(if anon_out { Unifiable::Anonymous } else { res.clone() });
        let c = make_case(&ctx, Some(bip("append", args)));
        let info = match emit_info(out, cfg, &c) { Some(i) => i, None => continue };
        if !cfg.want("C16") { continue; }
        let verdict: Result<(), String> = (|| {
            if info.rec.ends_with("P") { return Err("append panicked".into()); }
            let n_ans = info.answers.iter().filter(|x| x.is_some()).count();
            if anon_out { return if n_ans == 1 { Ok(()) } else { Err(format!("append with the output argument $_ gave {} answers (expected exactly one: $_ unifies with every list)", n_ans)) }; }
            let fits = match (min_len, exact) { (Some(k), _) => expected.len() >= k, (_, Some(k)) => expected.len() == k, _ => true };
            if !fits { return if n_ans == 0 { Ok(()) } else { Err(format!("append succeeded although its {} elements cannot match the output pattern", expected.len())) }; }
            if n_ans != 1 { return Err(format!("append gave {} answers (expected exactly one{})", n_ans, if min_len.is_some() || exact.is_some() { "; the output argument is a list pattern that the result matches" } else { "" })); }
            let ans = info.answers[0].as_ref().unwrap();
            let got = answer_arg(ans, var_index(&res)).ok_or("cannot read the result")?;
            if term_str(&normalize_lists(&got)) != enc_list(&expected) { return Err(format!("append result is {} but the elements of the arguments are {}", got, proper_list(expected.clone(), None))); }
            Ok(())
        })();
        match verdict { Ok(()) => out.oracle(info.id, "C16", true, ""), Err(m) => out.oracle(info.id, "C16", false, &m) }
    }
}

fn word(r: &mut Rng) -> Unifiable {
    match r.below(13) { 0 => atom!("Hello"), 1 => atom!("world"), 2 => atom!(","), 3 => atom!("."), 4 => atom!("?"), 5 => atom!("!"), 6 => SInteger(42), 7 => atom!("a b"),
        // values that only look like punctuation: several marks, marks inside a word, the empty text
        8 => atom!("?!"), 9 => atom!(*r.pick(&[",.", ".?", "...", "!?", ",.?!", "!!", "?"])), 10 => atom!(""), 11 => atom!(*r.pick(&["a,", ".b", "x?y", "-", ";", ":"])),
        _ => atom!("x") }
}
fn join_expected(words: &[Unifiable]) -> String {
    let mut out = String::new(); let mut first = true;
    for w in words {
        let s = w.to_string();
        let punct = s == "," || s == "." || s == "?" || s == "!";
        if punct || first { out.push_str(&s); } else { out.push(' '); out.push_str(&s); }
        first = false;
    }
    out
}

pub fn run_c17_random(out: &mut Out, cfg: &Cfg, seed: u64, n: usize, only_filter: bool, no_tails: bool) {
    let mut r = Rng::new(seed);
    for _ in 0..n {
        let mut ctx = Ctx::new(); ctx.no_tails = no_tails;
        let res = ctx.fresh();
        let kind = if only_filter { 1 + r.below(2) } else { r.below(5) };
        let (goal, check): (Goal, Box<dyn Fn(&crate::suite_engine::RunInfo) -> Result<(), String>>) = match kind {
            0 => { // count
                let (w, es) = gen_list_arg(&mut ctx, &mut r);
                let n_exp = es.len() as i64; let ri = var_index(&res);
                (bip("count", vec![w, res.clone()]), Box::new(move |info| {
                    let ans = match info.answers.first() { Some(Some(a)) => a, _ => return Err("count gave no answer".to_string()) };
                    match answer_arg(ans, ri) { Some(Unifiable::SInteger(k)) if k == n_exp => Ok(()), Some(x) => Err(format!("count gave {} for a list of {} elements", x, n_exp)), None => Err("cannot read result".into()) }
                }))
            },
            1 | 2 => { // include / exclude
                let incl = kind == 1;
                let (w, es, pat) = if !ctx.no_tails && r.chance(1, 4) {
                    // a list written as a front piece of k elements and a bound tail variable (k + 1 nodes), in which exactly
                    // k + 1 elements are kept and at least one is dropped: the kept count equals the written node count
                    let k = 1 + r.below(3); let dropped = 1 + r.below(2); let n = k + 1 + dropped;
                    let use_f = r.chance(1, 2);
                    let pass = |r: &mut Rng| -> Unifiable { if use_f { scomplex!(atom!("f"), r.pick(&[atom!("x"), SInteger(1), atom!("y")]).clone()) } else { atom!("a") } };
                    let fail = |r: &mut Rng| -> Unifiable { if use_f { r.pick(&[scomplex!(atom!("g"), atom!("x")), atom!("f"), SInteger(2)]).clone() } else { r.pick(&[atom!("b"), SInteger(1), scomplex!(atom!("a"), atom!("x"))]).clone() } };
                    // for include the kept ones match the pattern, for exclude the kept ones are those that do not
                    let mut kinds: Vec<bool> = vec![true; k + 1]; kinds.extend(vec![false; dropped]);
                    for i in (1..kinds.len()).rev() { let j = r.below(i + 1); kinds.swap(i, j); }
                    let es: Vec<Unifiable> = kinds.iter().map(|keep| if *keep == incl { pass(&mut r) } else { fail(&mut r) }).collect();
                    let _ = n;
                    let tailv = ctx.fresh();
                    ctx.prior.push(unify_goal(tailv.clone(), proper_list(es[k..].to_vec(), None)));
                    let written = proper_list(es[..k].to_vec(), Some(tailv));
                    let w = ctx.operand(&mut r, written);
                    let pat = if use_f { scomplex!(atom!("f"), ctx.fresh()) } else { atom!("a") };
                    (w, es, pat)
                } else {
                    let (w, es) = gen_list_arg(&mut ctx, &mut r);
                    let pat = match r.below(5) { 0 => atom!("a"), 1 => Unifiable::Anonymous, 2 => ctx.fresh(), 3 => proper_list(vec![Unifiable::Anonymous], None), _ => scomplex!(atom!("f"), ctx.fresh()) };
                    (w, es, pat)
                };
                let empty: SubstitutionSet = vec![];
                let keep: Vec<Unifiable> = es.iter().filter(|e| {
                    // element unifies with the pattern (pattern variables are unbound, renamed apart: ids 9001..)
                    let p2 = rename_high(&pat);
                    let ok = p2.unify(e, &std::rc::Rc::new(empty.clone())).is_some();
                    ok == incl
                }).cloned().collect();
                let ri = var_index(&res);
                let pvars: Vec<usize> = { let mut v = vec![]; collect_vars(&pat, &mut v); v };
                (bip(if incl {"include"} else {"exclude"}, vec![pat, w, res.clone()]), Box::new(move |info| {
                    let ans = match info.answers.first() { Some(Some(a)) => a, _ => return Err("filter gave no answer".to_string()) };
                    let got = answer_arg(ans, ri).ok_or("cannot read result")?;
                    if term_str(&got) != enc_list(&keep) { return Err(format!("filter result is {} but the elements that {} the pattern are {}", got, if incl {"match"} else {"do not match"}, proper_list(keep.clone(), None))); }
                    for pv in &pvars { match answer_arg(ans, *pv) { Some(Unifiable::LogicVar{..}) => {}, Some(x) => return Err(format!("filter bound a pattern variable to {}", x)), None => {} } }
                    Ok(())
                }))
            },
            3 => { // functor
                let arity = r.below(5);
                // (names with letters of more than one byte: seeded change C17r11 compared a prefix by its number of characters taken as bytes)
                let name = *r.pick(&["noun", "noun_phrase", "verb", "n", "café_x", "naïve", "señor_x"]);
                let mut args = vec![atom!(name)]; for _ in 0..arity { args.push(gen_elem(&mut r, 1)); }
                let c = ctx.operand(&mut r, Unifiable::SComplex(args));
                let ar = ctx.fresh();
                let mode = r.below(4);
                let (second, exp_ok): (Unifiable, bool) = match mode {
                    0 => (res.clone(), true),
                    // the name / the prefix pattern written literally, or reached through a chain of bound variables
                    1 => (ctx.operand(&mut r, atom!(name)), true),
                    2 => { let p = *r.pick(&["noun*", "n*", "verb*", "x*", "*", "café_m*", "café*", "naïvx*", "naï*", "señor_y*", "señ*"]); (ctx.operand(&mut r, atom!(p)), name.starts_with(&p[..p.len()-1])) },
                    _ => (atom!("zzz"), false),
                };
                let ri = var_index(&res); let ai = var_index(&ar); let nm = name.to_string();
                (bip("functor", vec![c, second, ar.clone()]), Box::new(move |info| {
                    let n_ans = info.answers.iter().filter(|x| x.is_some()).count();
                    if !exp_ok { return if n_ans == 0 { Ok(()) } else { Err("functor succeeded although the functor does not match".into()) }; }
                    let ans = match info.answers.first() { Some(Some(a)) => a, _ => return Err("functor gave no answer".to_string()) };
                    match answer_arg(ans, ai) { Some(Unifiable::SInteger(k)) if k == arity as i64 => {}, Some(x) => return Err(format!("functor gave arity {} for a term of arity {}", x, arity)), None => return Err("cannot read arity".into()) }
                    if mode == 0 { match answer_arg(ans, ri) { Some(Unifiable::Atom(s)) if s == nm => {}, Some(x) => return Err(format!("functor gave name {}", x)), None => return Err("cannot read name".into()) } }
                    Ok(())
                }))
            },
            _ => { // join
                let k = 1 + r.below(4);
                let mut args = vec![]; let mut words: Vec<Unifiable> = vec![];
                for _ in 0..k {
                    if r.chance(1, 3) {
                        let n = 1 + r.below(3); let mut es = vec![]; for _ in 0..n { es.push(word(&mut r)); }
                        words.extend(es.clone());
                        let (l, _) = gen_list_arg_of(&mut ctx, &mut r, es);
                        args.push(l);
                    } else { let w = word(&mut r); words.push(w.clone()); args.push(ctx.operand(&mut r, w)); }
                }
                let exp = join_expected(&words); let ri = var_index(&res);
                (unify_goal(res.clone(), Unifiable::SFunction{name: "join".into(), terms: args}), Box::new(move |info| {
                    let ans = match info.answers.first() { Some(Some(a)) => a, _ => return Err("join gave no answer".to_string()) };
                    match answer_arg(ans, ri) { Some(Unifiable::Atom(s)) if s == exp => Ok(()), Some(x) => Err(format!("join gave '{}' but the documented result is '{}'", x, exp)), None => Err("cannot read result".into()) }
                }))
            },
        };
        let c = make_case(&ctx, Some(goal));
        let info = match emit_info(out, cfg, &c) { Some(i) => i, None => continue };
        if !cfg.want("C17") { continue; }
        if info.rec.ends_with("P") { out.oracle(info.id, "C17", false, "the built-in panicked"); continue; }
        match check(&info) { Ok(()) => out.oracle(info.id, "C17", true, ""), Err(m) => out.oracle(info.id, "C17", false, &m) }
    }
}

fn collect_vars(t: &Unifiable, out: &mut Vec<usize>) {
    match t {
        Unifiable::LogicVar{..} => { let i = var_index(t); if !out.contains(&i) { out.push(i); } },
        Unifiable::SComplex(a) => for x in a { collect_vars(x, out) },
        Unifiable::SLinkedList{term, next, ..} => { collect_vars(term, out); collect_vars(next, out); },
        _ => {},
    }
}
fn rename_high(t: &Unifiable) -> Unifiable {
    match t {
        Unifiable::LogicVar{name, ..} => Unifiable::LogicVar{id: 9000 + var_index(t), name: name.clone()},
        Unifiable::SComplex(a) => Unifiable::SComplex(a.iter().map(rename_high).collect()),
        Unifiable::SLinkedList{term, next, count, tail_var} => Unifiable::SLinkedList{term: Box::new(rename_high(term)), next: Box::new(rename_high(next)), count: *count, tail_var: *tail_var},
        _ => t.clone(),
    }
}
