//! Harness-side reference: first-order view of suiron terms, Robinson unification
//! with occurs check, variant check. Used only as a property oracle on the
//! implementation's own results (never compared with the Lean model).
use suiron::*;
use std::collections::HashMap;

#[derive(Clone, Debug, PartialEq)]
pub enum FO {
    Var(usize),
    Wild(usize),               // one fresh variable per `$_` occurrence
    Const(String),             // canonical text of a constant incl. its kind
    Fn(String, Vec<FO>),
    Bad(String),               // ill-formed list / unexpected shape
}

pub struct Viewer { pub fresh: usize }
impl Viewer {
    pub fn new() -> Viewer { Viewer{fresh: 1_000_000} }
    pub fn view(&mut self, t: &Unifiable) -> FO {
        match t {
            Unifiable::Nil => FO::Bad("Nil".into()),
            Unifiable::Anonymous => { self.fresh += 1; FO::Wild(self.fresh) },
            Unifiable::Atom(s) => FO::Const(format!("a:{}", s)),
            Unifiable::SInteger(i) => FO::Const(format!("i:{}", i)),
            Unifiable::SFloat(f) => {
                // IEEE equality classes: +0 = -0; NaN equal to nothing (each NaN its own constant)
                if f.is_nan() { self.fresh += 1; FO::Const(format!("nan:{}", self.fresh)) }
                else if *f == 0.0 { FO::Const("f:0".into()) }
                else { FO::Const(format!("f:{}", f.to_bits())) }
            },
            Unifiable::LogicVar{id, name: _} => FO::Var(*id),
            Unifiable::SComplex(args) => {
                let v: Vec<FO> = args.iter().map(|a| self.view(a)).collect();
                FO::Fn(format!("cplx/{}", args.len()), v)
            },
            Unifiable::SLinkedList{term, next, count: _, tail_var} => {
                if **term == Unifiable::Nil { return FO::Const("[]".into()); }
                if *tail_var { return self.view(term); }
                let h = self.view(term);
                let n = self.view(next);
                FO::Fn(".".into(), vec![h, n])
            },
            Unifiable::SFunction{name, terms} => {
                let v: Vec<FO> = terms.iter().map(|a| self.view(a)).collect();
                FO::Fn(format!("fn:{}", name), v)
            },
        }
    }
}

pub type Env = HashMap<usize, FO>;   // keys: Var ids and Wild ids (disjoint ranges)

fn key(t: &FO) -> Option<usize> { match t { FO::Var(i) | FO::Wild(i) => Some(*i), _ => None } }

pub fn walk<'a>(t: &'a FO, env: &'a Env) -> &'a FO {
    let mut cur = t;
    let mut steps = 0;
    while let Some(k) = key(cur) {
        match env.get(&k) { Some(n) => { cur = n; }, None => break }
        steps += 1; if steps > 100_000 { break; }
    }
    cur
}

pub fn occurs(k: usize, t: &FO, env: &Env, depth: usize) -> bool {
    if depth > 10_000 { return true; }
    let t = walk(t, env);
    match t {
        FO::Var(i) | FO::Wild(i) => *i == k,
        FO::Fn(_, args) => args.iter().any(|a| occurs(k, a, env, depth + 1)),
        _ => false,
    }
}

#[derive(Debug, PartialEq)]
pub enum RefRes { Ok, Fail, Occurs }

/// Robinson unification with occurs check; extends `env` in place.
pub fn unify(a: &FO, b: &FO, env: &mut Env) -> RefRes {
    let a = walk(a, env).clone();
    let b = walk(b, env).clone();
    if let (Some(x), Some(y)) = (key(&a), key(&b)) { if x == y { return RefRes::Ok; } }
    if let Some(k) = key(&a) {
        if occurs(k, &b, env, 0) { return RefRes::Occurs; }
        env.insert(k, b); return RefRes::Ok;
    }
    if let Some(k) = key(&b) {
        if occurs(k, &a, env, 0) { return RefRes::Occurs; }
        env.insert(k, a); return RefRes::Ok;
    }
    match (&a, &b) {
        (FO::Const(x), FO::Const(y)) => if x == y { RefRes::Ok } else { RefRes::Fail },
        (FO::Fn(f, xs), FO::Fn(g, ys)) => {
            if f != g || xs.len() != ys.len() { return RefRes::Fail; }
            // an occurs-check hit anywhere makes the whole pair "outside the claim"
            let mut saw_fail = false;
            for (x, y) in xs.iter().zip(ys.iter()) {
                match unify(x, y, env) {
                    RefRes::Ok => {},
                    RefRes::Fail => { saw_fail = true; break; },
                    RefRes::Occurs => return RefRes::Occurs,
                }
            }
            if saw_fail { RefRes::Fail } else { RefRes::Ok }
        },
        _ => RefRes::Fail,
    }
}

pub fn resolve(t: &FO, env: &Env, depth: usize) -> FO {
    if depth > 5_000 { return FO::Bad("deep".into()); }
    let t = walk(t, env);
    match t {
        FO::Fn(f, args) => FO::Fn(f.clone(), args.iter().map(|a| resolve(a, env, depth + 1)).collect()),
        _ => t.clone(),
    }
}

/// are the two lists of terms variants of each other under ONE bijection of variables?
pub fn variants(pairs: &[(FO, FO)]) -> bool {
    let mut fwd: HashMap<usize, usize> = HashMap::new();
    let mut bwd: HashMap<usize, usize> = HashMap::new();
    fn go(a: &FO, b: &FO, fwd: &mut HashMap<usize, usize>, bwd: &mut HashMap<usize, usize>) -> bool {
        match (a, b) {
            (FO::Var(x), FO::Var(y)) | (FO::Var(x), FO::Wild(y)) | (FO::Wild(x), FO::Var(y)) | (FO::Wild(x), FO::Wild(y)) => {
                match (fwd.get(x), bwd.get(y)) {
                    (None, None) => { fwd.insert(*x, *y); bwd.insert(*y, *x); true },
                    (Some(y2), Some(x2)) => y2 == y && x2 == x,
                    _ => false,
                }
            },
            (FO::Const(x), FO::Const(y)) => x == y,
            (FO::Bad(x), FO::Bad(y)) => x == y,
            (FO::Fn(f, xs), FO::Fn(g, ys)) => f == g && xs.len() == ys.len() && xs.iter().zip(ys.iter()).all(|(x, y)| go(x, y, fwd, bwd)),
            _ => false,
        }
    }
    pairs.iter().all(|(a, b)| go(a, b, &mut fwd, &mut bwd))
}

/// structural equality where a wildcard matches anything
pub fn matches(a: &FO, b: &FO) -> bool {
    match (a, b) {
        (FO::Wild(_), _) | (_, FO::Wild(_)) => true,
        (FO::Var(x), FO::Var(y)) => x == y,
        (FO::Const(x), FO::Const(y)) => x == y,
        (FO::Fn(f, xs), FO::Fn(g, ys)) => f == g && xs.len() == ys.len() && xs.iter().zip(ys.iter()).all(|(x, y)| matches(x, y)),
        _ => false,
    }
}

pub fn vars_of(t: &Unifiable, out: &mut Vec<usize>) {
    match t {
        Unifiable::LogicVar{id, ..} => { if !out.contains(id) { out.push(*id); } },
        Unifiable::SComplex(a) => for x in a { vars_of(x, out) },
        Unifiable::SFunction{terms, ..} => for x in terms { vars_of(x, out) },
        Unifiable::SLinkedList{term, next, ..} => { vars_of(term, out); vars_of(next, out); },
        _ => {},
    }
}

pub fn has_anon(t: &Unifiable) -> bool {
    match t {
        Unifiable::Anonymous => true,
        Unifiable::SComplex(a) => a.iter().any(has_anon),
        Unifiable::SFunction{terms, ..} => terms.iter().any(has_anon),
        Unifiable::SLinkedList{term, next, ..} => has_anon(term) || has_anon(next),
        _ => false,
    }
}
pub fn has_func(t: &Unifiable) -> bool {
    match t {
        Unifiable::SFunction{..} => true,
        Unifiable::SComplex(a) => a.iter().any(has_func),
        Unifiable::SLinkedList{term, next, ..} => has_func(term) || has_func(next),
        _ => false,
    }
}

pub fn has_nan(t: &Unifiable) -> bool {
    match t {
        Unifiable::SFloat(f) => f.is_nan(),
        Unifiable::SComplex(a) => a.iter().any(has_nan),
        Unifiable::SFunction{terms, ..} => terms.iter().any(has_nan),
        Unifiable::SLinkedList{term, next, ..} => has_nan(term) || has_nan(next),
        _ => false,
    }
}
