//! Suites `rename` (C10) and `lists` (C15): direct calls of recreate_variables / make_linked_list /
//! make_list_of_terms, dumped structurally.
use std::panic::{catch_unwind, AssertUnwindSafe};
use suiron::*;
use crate::prng::Rng;
use crate::gen::*;
use crate::codec::*;
use crate::out::Out;
use crate::suite_engine::{gen_program, Weights, Cfg};

// ------------------------------------------------------------------------------------ rename

fn zero_ids(t: &Unifiable) -> Unifiable {
    match t {
        Unifiable::LogicVar{name, ..} => Unifiable::LogicVar{id: 0, name: name.clone()},
        Unifiable::SComplex(a) => Unifiable::SComplex(a.iter().map(zero_ids).collect()),
        Unifiable::SFunction{name, terms} => Unifiable::SFunction{name: name.clone(), terms: terms.iter().map(zero_ids).collect()},
        Unifiable::SLinkedList{term, next, count, tail_var} => Unifiable::SLinkedList{term: Box::new(zero_ids(term)), next: Box::new(zero_ids(next)), count: *count, tail_var: *tail_var},
        _ => t.clone(),
    }
}
fn zero_ids_goal(g: &Goal) -> Goal {
    match g {
        Goal::ComplexGoal(t) => Goal::ComplexGoal(zero_ids(t)),
        Goal::BuiltInGoal(b) => Goal::BuiltInGoal(BuiltInPredicate::new(b.functor.clone(), b.terms.as_ref().map(|ts| ts.iter().map(zero_ids).collect()))),
        Goal::OperatorGoal(op) => Goal::OperatorGoal(match op {
            Operator::And(gs) => Operator::And(gs.iter().map(zero_ids_goal).collect()),
            Operator::Or(gs) => Operator::Or(gs.iter().map(zero_ids_goal).collect()),
            Operator::Time(gs) => Operator::Time(gs.iter().map(zero_ids_goal).collect()),
            Operator::Not(gs) => Operator::Not(gs.iter().map(zero_ids_goal).collect()),
        }),
        Goal::Nil => Goal::Nil,
    }
}
fn vars_term(t: &Unifiable, out: &mut Vec<(String, usize)>) {
    match t {
        Unifiable::LogicVar{id, name} => out.push((name.clone(), *id)),
        Unifiable::SComplex(a) => for x in a { vars_term(x, out) },
        Unifiable::SFunction{terms, ..} => for x in terms { vars_term(x, out) },
        Unifiable::SLinkedList{term, next, ..} => { vars_term(term, out); vars_term(next, out); },
        _ => {},
    }
}
fn vars_goal(g: &Goal, out: &mut Vec<(String, usize)>) {
    match g {
        Goal::ComplexGoal(t) => vars_term(t, out),
        Goal::BuiltInGoal(b) => if let Some(ts) = &b.terms { for t in ts { vars_term(t, out) } },
        Goal::OperatorGoal(op) => { let gs = match op { Operator::And(g) | Operator::Or(g) | Operator::Time(g) | Operator::Not(g) => g }; for g in gs { vars_goal(g, out) } },
        Goal::Nil => {},
    }
}

pub fn emit_rename(out: &mut Out, cfg: &Cfg, rule: &Rule, counter: usize) {
    if !out.begin() { return; }
    let mut body = format!("rename {} ", counter); enc_rule(rule, &mut body);
    let id = out.case(&body);
    let r = catch_unwind(AssertUnwindSafe(|| { set_var_id(counter); let r2 = rule.clone().recreate_variables(&mut VarMap::new()); (r2, get_var_id()) }));
    match r {
        Err(_) => { out.impl_line(id, "panic"); if cfg.want("C10") { out.oracle(id, "C10", false, "renaming panicked"); } },
        Ok((r2, after)) => {
            let mut s = String::from("ok "); enc_rule(&r2, &mut s); s.push_str(&format!(" C {}", after));
            out.impl_line(id, &s);
            if cfg.want("C10") {
                let verdict: Result<(), String> = (|| {
                    // nothing but variable ids changes
                    let mut a = String::new(); enc_rule(&Rule{head: zero_ids(&rule.head), body: zero_ids_goal(&rule.body)}, &mut a);
                    let mut b = String::new(); enc_rule(&Rule{head: zero_ids(&r2.head), body: zero_ids_goal(&r2.body)}, &mut b);
                    if a != b { return Err("renaming changed something other than variable ids".into()); }
                    let mut vs = vec![]; vars_term(&r2.head, &mut vs); vars_goal(&r2.body, &mut vs);
                    let mut by_name = std::collections::HashMap::new(); let mut by_id = std::collections::HashMap::new();
                    for (n, i) in &vs {
                        if *i <= counter { return Err(format!("variable {} got id {} which is not above the counter {}", n, i, counter)); }
                        if let Some(j) = by_name.insert(n.clone(), *i) { if j != *i { return Err(format!("variable {} got two ids", n)); } }
                        if let Some(m) = by_id.insert(*i, n.clone()) { if m != *n { return Err(format!("variables {} and {} share id {}", m, n, i)); } }
                    }
                    if after != counter + by_name.len() { return Err(format!("counter moved from {} to {} for {} distinct variables", counter, after, by_name.len())); }
                    Ok(())
                })();
                match verdict { Ok(()) => out.oracle(id, "C10", true, ""), Err(m) => out.oracle(id, "C10", false, &m) }
            }
        },
    }
}

fn gen_rich_term(r: &mut Rng, depth: usize) -> Unifiable {
    // names that differ only by a numeric suffix, in case, or by a longer tail are different variables
    let names = ["$X", "$Y", "$Z", "$Head", "$T", "$X_1", "$X_2", "$X_12", "$x", "$Xa", "$T_1"];
    match r.below(12) {
        // stored clauses may carry variable ids already (rules taken from another knowledge base): renaming goes by name
        0 | 1 | 2 => { let nm = *r.pick(&names); if r.chance(1, 4) { logic_var!(1 + r.below(40), nm) } else { logic_var!(nm) } },
        3 => atom!("a"), 4 => SInteger(7), 5 => SFloat(2.5), 6 => Unifiable::Anonymous,
        7 if depth < 3 => { let n = 1 + r.below(3); let mut a = vec![atom!("f")]; for _ in 0..n { a.push(gen_rich_term(r, depth + 1)); } Unifiable::SComplex(a) },
        8 | 9 if depth < 3 => {
            let n = r.below(4); let mut e = vec![]; for _ in 0..n { e.push(gen_rich_term(r, depth + 1)); }
            let tail = if n > 0 && r.chance(1, 3) { Some(logic_var!(*r.pick(&names))) } else { None };
            proper_list(e, tail)
        },
        10 if depth < 3 => Unifiable::SFunction{name: "add".into(), terms: vec![gen_rich_term(r, depth + 2), SInteger(1)]},
        _ => proper_list(vec![], None),
    }
}

pub fn run_rename(out: &mut Out, cfg: &Cfg, seed: u64, n: usize) {
    let mut r = Rng::new(seed);
    let mut k = 0;
    while k < n {
        if r.chance(1, 2) {
            let prog = gen_program(&mut r, &Weights::all());
            for rule in &prog.rules { let c = r.below(50); emit_rename(out, cfg, rule, c); k += 1; }
        } else {
            let nh = r.below(4); let mut head = vec![atom!("h")]; for _ in 0..nh { head.push(gen_rich_term(&mut r, 0)); }
            let nb = r.below(3);
            let mut gs = vec![];
            for _ in 0..nb { gs.push(Goal::BuiltInGoal(BuiltInPredicate::new("unify".into(), Some(vec![gen_rich_term(&mut r, 0), gen_rich_term(&mut r, 0)])))); }
            let body = if gs.is_empty() { Goal::Nil } else if gs.len() == 1 { gs.pop().unwrap() } else { Goal::OperatorGoal(Operator::Or(gs)) };
            let c = r.below(50);
            emit_rename(out, cfg, &Rule{head: Unifiable::SComplex(head), body}, c); k += 1;
        }
    }
}

/// all lists of length <= 3 over a small element universe, with and without tail variable, as fact heads
pub fn run_rename_exhaustive(out: &mut Out, cfg: &Cfg) {
    let u: Vec<Unifiable> = vec![atom!("a"), logic_var!("$X"), logic_var!("$Y"), Unifiable::Anonymous, proper_list(vec![], None),
                                 proper_list(vec![atom!("b"), logic_var!("$X")], None), scomplex!(atom!("f"), logic_var!("$Y"))];
    let mut lists: Vec<Unifiable> = vec![proper_list(vec![], None)];
    for a in &u { lists.push(proper_list(vec![a.clone()], None)); lists.push(proper_list(vec![a.clone()], Some(logic_var!("$T")))); }
    for a in &u { for b in &u { lists.push(proper_list(vec![a.clone(), b.clone()], None)); lists.push(proper_list(vec![a.clone(), b.clone()], Some(logic_var!("$X")))); } }
    for a in &u { for b in &u { for c in &u { lists.push(proper_list(vec![a.clone(), b.clone(), c.clone()], None)); } } }
    for l in lists {
        emit_rename(out, cfg, &Rule{head: scomplex!(atom!("p"), l, logic_var!("$X")), body: Goal::Nil}, 3);
    }
}

// ------------------------------------------------------------------------------------ lists

fn wf_check(t: &Unifiable) -> Result<(Vec<Unifiable>, Option<Unifiable>), String> {
    // returns elements + tail variable of a well-formed list
    let mut elems = vec![]; let mut cur = t; let mut expected_count: Option<usize> = None;
    loop {
        match cur {
            Unifiable::SLinkedList{term, next, count, tail_var} => {
                if let Some(e) = expected_count { if *count != e { return Err(format!("recorded length {} where {} cells remain", count, e)); } }
                if **term == Unifiable::Nil {
                    if *count != 0 || *tail_var || **next != Unifiable::Nil { return Err("malformed end node".into()); }
                    return Ok((elems, None));
                }
                if *count == 0 { return Err("cell with recorded length 0".into()); }
                expected_count = Some(*count - 1);
                if *tail_var {
                    match &**next { Unifiable::SLinkedList{term: t2, count: 0, ..} if **t2 == Unifiable::Nil => {}, _ => return Err("tail variable is not the last cell".into()) }
                    if *count != 1 { return Err("tail variable cell has recorded length != 1".into()); }
                    return Ok((elems, Some((**term).clone())));
                }
                elems.push((**term).clone());
                cur = &**next;
            },
            _ => return Err("list does not end in the empty node".into()),
        }
    }
}

pub fn emit_mklist(out: &mut Out, cfg: &Cfg, vbar: bool, terms: &[Unifiable], proper: bool) {
    if !out.begin() { return; }
    let mut body = format!("{} {} {}", if proper {"mkproper"} else {"mklist"}, if vbar {1} else {0}, terms.len());
    for t in terms { body.push(' '); enc_term(t, &mut body); }
    let id = out.case(&body);
    let ts = terms.to_vec();
    let r = catch_unwind(AssertUnwindSafe(|| if proper { make_list_of_terms(ts) } else { make_linked_list(vbar, ts) }));
    match r {
        Err(_) => { out.impl_line(id, "panic"); if cfg.want("C15") { out.oracle(id, "C15", false, "list constructor panicked"); } },
        Ok(l) => {
            out.impl_line(id, &format!("ok {}", term_str(&l)));
            if !cfg.want("C15") { return; }
            if terms.iter().any(|t| *t == Unifiable::Nil) { return; }
            let verdict: Result<(), String> = (|| {
                let (elems, tail) = wf_check(&l)?;
                let enc = |v: &[Unifiable]| v.iter().map(term_str).collect::<Vec<_>>().join(" | ");
                if proper {
                    if enc(&elems) != enc(terms) || tail.is_some() { return Err("built list does not hold exactly the given elements".into()); }
                    return Ok(());
                }
                // documented constructor: trailing tail variable / trailing list spliced / plain
                if terms.is_empty() { return if elems.is_empty() && tail.is_none() { Ok(()) } else { Err("empty constructor call gave a non-empty list".into()) }; }
                let (front, last) = terms.split_at(terms.len() - 1);
                let last = &last[0];
                if terms.len() == 1 {
                    // a single term is always one element (or the tail when the flag is set)
                    if vbar { if elems.is_empty() && tail.as_ref().map(term_str) == Some(term_str(last)) { return Ok(()); } return Err("single tail term mishandled".into()); }
                    if enc(&elems) == enc(terms) && tail.is_none() { return Ok(()); }
                    return Err("single term is not the single element".into());
                }
                if let Unifiable::SLinkedList{..} = last {
                    let (le, lt) = wf_check(last).map_err(|e| format!("(input list malformed: {})", e))?;
                    let mut want = front.to_vec(); want.extend(le);
                    if enc(&elems) != enc(&want) || tail.as_ref().map(term_str) != lt.as_ref().map(term_str) { return Err("trailing list was not spliced in as the rest of the list".into()); }
                    return Ok(());
                }
                if vbar {
                    if enc(&elems) != enc(front) || tail.as_ref().map(term_str) != Some(term_str(last)) { return Err("trailing tail variable is not the tail".into()); }
                    return Ok(());
                }
                if enc(&elems) != enc(terms) || tail.is_some() { return Err("list does not hold exactly the given terms".into()); }
                Ok(())
            })();
            match verdict { Ok(()) => out.oracle(id, "C15", true, ""), Err(m) => out.oracle(id, "C15", false, &m) }
        },
    }
}

fn list_universe() -> Vec<Unifiable> {
    vec![atom!("a"), SInteger(1), SFloat(2.5), logic_var!(3, "$V3"), Unifiable::Anonymous, proper_list(vec![], None),
         proper_list(vec![atom!("b"), atom!("c")], None), proper_list(vec![atom!("b")], Some(logic_var!(4, "$V4"))), scomplex!(atom!("f"), atom!("x"))]
}

pub fn run_lists(out: &mut Out, cfg: &Cfg, seed: u64, n: usize) {
    let mut r = Rng::new(seed);
    let u = list_universe();
    for _ in 0..n {
        let k = r.below(6);
        let mut ts = vec![]; for _ in 0..k { ts.push(r.pick(&u).clone()); }
        let vbar = r.chance(1, 3);
        let mut ts2 = ts.clone();
        // with the tail flag the last term is a variable, `$_`, or a list written after the bar (`[a | [b, c]]`, `[a | []]`)
        if vbar && k > 0 {
            let l = ts2.len() - 1;
            let keep_list = matches!(ts2[l], Unifiable::SLinkedList{..}) && r.chance(1, 2);
            if !keep_list { ts2[l] = if r.chance(1, 4) { Unifiable::Anonymous } else { logic_var!(5, "$V5") }; }
        }
        emit_mklist(out, cfg, vbar && k > 0, &ts2, false);
        emit_mklist(out, cfg, false, &ts, true);
    }
}

/// all vectors of length <= 3 over the 9 element kinds x both builders (x tail flag for the constructor)
pub fn run_lists_exhaustive(out: &mut Out, cfg: &Cfg) {
    let u = list_universe();
    let mut vecs: Vec<Vec<Unifiable>> = vec![vec![]];
    for a in &u { vecs.push(vec![a.clone()]); }
    for a in &u { for b in &u { vecs.push(vec![a.clone(), b.clone()]); } }
    for a in &u { for b in &u { for c in &u { vecs.push(vec![a.clone(), b.clone(), c.clone()]); } } }
    for v in vecs {
        emit_mklist(out, cfg, false, &v, false);
        emit_mklist(out, cfg, false, &v, true);
        if !v.is_empty() {
            let mut v2 = v.clone(); let l = v2.len() - 1; v2[l] = logic_var!(5, "$V5");
            emit_mklist(out, cfg, true, &v2, false);
            // a list written after the bar is spliced in as the rest
            if matches!(v[v.len() - 1], Unifiable::SLinkedList{..}) { emit_mklist(out, cfg, true, &v, false); }
        }
    }
}

pub fn zero_ids_pub(t: &Unifiable) -> String { term_str(&zero_ids(t)) }
