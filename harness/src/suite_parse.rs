//! Suite `parse`: strings fed to the eight parser entry points (C18-C20) and rule files fed to the
//! reader (C21).  Three streams: text rendered from a canonical grammar (by the harness' own
//! renderer, not the implementation's printer), single-character mutations of it, and random
//! strings over the syntax alphabet.
use std::panic::{catch_unwind, AssertUnwindSafe};
use suiron::*;
use crate::prng::Rng;
use crate::codec::*;
use crate::out::Out;
use crate::suite_engine::Cfg;

pub const ENTRIES: [&str; 8] = ["term", "list", "complex", "function", "query", "subgoal", "goal", "rule"];

#[derive(Debug, Clone)]
pub enum Parsed { Term(Unifiable), Goal(Goal), Rule(Rule), Err, Panic }
impl PartialEq for Parsed { fn eq(&self, o: &Parsed) -> bool { dump(self) == dump(o) } }

pub fn run_entry(entry: &str, s: &str) -> Parsed {
    let r = catch_unwind(AssertUnwindSafe(|| -> Parsed {
        match entry {
            "term" => match parse_term(s) { Ok(t) => Parsed::Term(t), Err(_) => Parsed::Err },
            "list" => match parse_linked_list(s) { Ok(t) => Parsed::Term(t), Err(_) => Parsed::Err },
            "complex" => match parse_complex(s) { Ok(t) => Parsed::Term(t), Err(_) => Parsed::Err },
            "function" => match parse_function(s) { Ok(t) => Parsed::Term(t), Err(_) => Parsed::Err },
            "query" => match parse_query(s) { Ok(g) => Parsed::Goal(g), Err(_) => Parsed::Err },
            "subgoal" => match parse_subgoal(s) { Ok(g) => Parsed::Goal(g), Err(_) => Parsed::Err },
            "goal" => match generate_goal(s) { Ok(g) => Parsed::Goal(g), Err(_) => Parsed::Err },
            _ => match parse_rule(s) { Ok(r) => Parsed::Rule(r), Err(_) => Parsed::Err },
        }
    }));
    match r { Ok(p) => p, Err(_) => Parsed::Panic }
}

pub fn dump(p: &Parsed) -> String {
    match p {
        Parsed::Term(t) => format!("ok {}", term_str(t)),
        Parsed::Goal(g) => { let mut s = String::from("ok "); enc_goal(g, &mut s); s },
        Parsed::Rule(r) => { let mut s = String::from("ok "); enc_rule(r, &mut s); s },
        Parsed::Err => "err".into(),
        Parsed::Panic => "panic".into(),
    }
}

pub fn show(p: &Parsed) -> Option<String> {
    match catch_unwind(AssertUnwindSafe(|| match p {
        Parsed::Term(t) => Some(t.to_string()), Parsed::Goal(g) => Some(g.to_string()), Parsed::Rule(r) => Some(r.to_string()), _ => None })) {
        Ok(x) => x, Err(_) => None }
}

pub fn emit_parse(out: &mut Out, cfg: &Cfg, entry: &str, s: &str, canonical: Option<&Parsed>) {
    if !out.begin() { return; }
    let id = out.case(&format!("parse {} {}", entry, hex(s)));
    let p = run_entry(entry, s);
    // the parsed value, and what the implementation prints for it (ties the model's printer to the code)
    let printed = match &p { Parsed::Err | Parsed::Panic => String::new(), _ => match show(&p) { Some(t) => format!(" P {}", hex(&t)), None => " P panic".to_string() } };
    out.impl_line(id, &format!("{}{}", dump(&p), printed));
    out.stat(&format!("{}_{}", entry, match &p { Parsed::Err => "err", Parsed::Panic => "panic", _ => "ok" }), 1);
    if s.chars().count() < 2 { out.trivial(id); }
    if cfg.want("C18") {
        out.oracle(id, "C18", p != Parsed::Panic, &format!("parse_{} panicked on `{}`", entry, s));
    }
    if cfg.want("C19") {
        if let Some(want) = canonical {
            let verdict: Result<(), String> = (|| {
                if p == Parsed::Panic { return Err(format!("canonical text `{}` makes the parser panic", s)); }
                if p == Parsed::Err { return Err(format!("canonical text `{}` is rejected", s)); }
                if dump(&p) != dump(want) { return Err(format!("canonical text `{}` parses to a different value than the one it denotes (query ids aside)", s)); }
                let printed = show(&p).ok_or("printing panicked")?;
                let expect_print = if entry == "rule" || entry == "query" { s.to_string() } else { s.to_string() };
                // a quoted atom is printed without its quotes: the printed text is then not the canonical one, and must still denote the same value
                let quoted = s.contains('"');
                if entry != "query" && !quoted && printed != expect_print { return Err(format!("`{}` prints back as `{}`", s, printed)); }
                if entry != "query" {
                    let p2 = run_entry(entry, &printed);
                    if dump(&p2) != dump(&p) {
                        if quoted { return Err(format!("atom that needs its quotes: `{}` is printed as `{}`, which parses to a different value (or not at all)", s, printed)); }
                        return Err(format!("printed text `{}` parses to a different value", printed)); }
                }
                Ok(())
            })();
            match verdict { Ok(()) => out.oracle(id, "C19", true, ""), Err(m) => out.oracle(id, "C19", false, &m) }
        }
    }
}

// --------------------------------------------------------------------- canonical grammar

fn zero(t: &Unifiable) -> Unifiable { t.clone() }

pub struct Gen<'a> { pub r: &'a mut Rng, pub depth: usize }

// (the last four: atoms made only of numerals that are not ASCII digits, seeded change C19r9: `char::is_numeric` as the digit test;
//  none of them is alphabetic — a Roman numeral such as U+2163 is, and `$` + an alphabetic character outside Latin / Greek /
//  Cyrillic is a variable for the implementation but not for the model's driver, whose table of letters stops there: DESIGN 7)
const ATOMS: [&str; 17] = ["a", "b", "abc", "Hello World", "x1", "noun_phrase", "Zoë", "über", "10:30-11:00", "3:2", "re-read", "todo: re-read", "a:b-c",
                           "２０２３", "½", "①", "٣"];
const VARS: [&str; 5] = ["$X", "$Y", "$Z", "$Head", "$T"];

impl<'a> Gen<'a> {
    /// (canonical text, value)
    pub fn term(&mut self, d: usize) -> (String, Unifiable) {
        let k = self.r.below(if d >= self.depth { 60 } else { 100 });
        if k < 16 { let a = *self.r.pick(&ATOMS); return (a.to_string(), atom!(a)); }
        // an atom written between double quotes: with text that needs them, and with text that does not
        // (separators and brackets between the quotes only where the quotes are at most one level deep: deeper down the scanners
        //  do not look at quotes, known finding F4)
        if k < 18 {
            let a = if d <= 1 { *self.r.pick(&["a, b", "12", "$X", "x(y", "[a]", "a | b", "1.5", "$_", "Hello World", "abc", "a; b", "smile :)",
                                               "50% off", "a # b", "http://x.y", "end. Next", "p :- q", "1 + 2", "a = b"]) }
                    else { *self.r.pick(&["12", "$X", "1.5", "$_", "Hello World", "abc"]) };
            return (format!("\"{}\"", a), atom!(a)); }
        if k < 28 { let i = *self.r.pick(&[0i64, 1, 7, 42, -3, -15, 123456789]); return (i.to_string(), SInteger(i)); }
        if k < 36 { let f = *self.r.pick(&[2.5f64, 0.5, 100.25, -0.75, 3.125, 0.0000012, 0.00001, -0.000001, 0.00000015, 123456789012.5, 4503599627370495.5, 0.1, 1234.5678]); return (f.to_string(), SFloat(f)); }
        if k < 54 { let v = *self.r.pick(&VARS); return (v.to_string(), logic_var!(v)); }
        if k < 60 { return ("$_".to_string(), Unifiable::Anonymous); }
        if k < 80 {
            let n = self.r.below(4);
            let mut ts = vec![]; let mut es = vec![];
            for _ in 0..n { let (t, e) = self.term(d + 1); ts.push(t); es.push(e); }
            let tail = if n > 0 && self.r.chance(1, 3) { Some(*self.r.pick(&VARS)) } else { None };
            let mut text = format!("[{}", ts.join(", "));
            if let Some(t) = tail { text.push_str(&format!(" | {}", t)); }
            text.push(']');
            return (text, crate::gen::proper_list(es, tail.map(|t| logic_var!(t))));
        }
        // complex term (arity 0-3)
        // (functors ending in every kind of character the tokenizer accepts before a parenthesis)
        let f = *self.r.pick(&["f", "g", "loves", "element", "p9", "q0", "route19", "my_pred", "a-b", "x_", "Z"]);
        let n = self.r.below(4);
        let mut ts = vec![]; let mut es = vec![atom!(f)];
        for _ in 0..n { let (t, e) = self.term(d + 1); ts.push(t); es.push(e); }
        (format!("{}({})", f, ts.join(", ")), Unifiable::SComplex(es))
    }

    pub fn subgoal(&mut self, d: usize) -> (String, Goal) {
        let k = self.r.below(100);
        if k < 40 {
            let (t, v) = loop { let (t, v) = self.term(self.depth.saturating_sub(1)); if let Unifiable::SComplex(_) = v { break (t, v); } };
            // a functor that names a built-in predicate would be read as that predicate
            return (t, Goal::ComplexGoal(v));
        }
        if k < 55 { let (a, va) = self.term(d + 1); let (b, vb) = self.term(d + 1);
            return (format!("{} = {}", a, b), Goal::BuiltInGoal(BuiltInPredicate::new("unify".into(), Some(vec![va, vb])))); }
        if k < 70 {
            let name = *self.r.pick(&["print", "append", "functor", "include", "exclude", "print_list", "count", "equal", "less_than", "greater_than_or_equal"]);
            let n = 1 + self.r.below(3); let mut ts = vec![]; let mut es = vec![];
            for _ in 0..n { let (t, e) = self.term(d + 1); ts.push(t); es.push(e); }
            return (format!("{}({})", name, ts.join(", ")), Goal::BuiltInGoal(BuiltInPredicate::new(name.into(), Some(es))));
        }
        if k < 80 { let n = *self.r.pick(&["!", "fail", "nl"]); return (n.to_string(), Goal::BuiltInGoal(BuiltInPredicate::new(n.into(), None))); }
        if k < 90 && d < 3 { let (t, g) = self.subgoal(d + 2); if !t.contains(" = ") { return (format!("not({})", t), Goal::OperatorGoal(Operator::Not(vec![g]))); } }
        let (a, va) = self.term(d + 1);
        let f = *self.r.pick(&["add", "subtract", "multiply", "divide", "join"]);
        let (b, vb) = self.term(d + 1); let (c, vc) = self.term(d + 1);
        (format!("{} = {}({}, {})", a, f, b, c), Goal::BuiltInGoal(BuiltInPredicate::new("unify".into(), Some(vec![va, Unifiable::SFunction{name: f.into(), terms: vec![vb, vc]}]))))
    }

    /// a body: subgoal | conjunction | disjunction of conjunctions (what the printer can express unambiguously)
    pub fn body(&mut self) -> (String, Goal) {
        let shape = self.r.below(10);
        let conj = |g: &mut Gen| -> (String, Goal) {
            let n = 2 + g.r.below(2); let mut ts = vec![]; let mut gs = vec![];
            for _ in 0..n { let (t, x) = g.subgoal(0); ts.push(t); gs.push(x); }
            (ts.join(", "), Goal::OperatorGoal(Operator::And(gs)))
        };
        if shape < 3 { return self.subgoal(0); }
        if shape < 6 { return conj(self); }
        if shape == 6 { let d = 1 + self.r.below(3); let or = self.r.chance(1, 2); return self.nested(d, or); }
        let n = 2 + self.r.below(2); let mut ts = vec![]; let mut gs = vec![];
        for _ in 0..n { let (t, x) = if self.r.chance(1, 2) { conj(self) } else { self.subgoal(0) }; ts.push(t); gs.push(x); }
        (ts.join("; "), Goal::OperatorGoal(Operator::Or(gs)))
    }

    /// operators nested to depth `d`, in the canonical text of the printer: a nested operand is written
    /// between parentheses, except a conjunction inside a disjunction
    pub fn nested(&mut self, d: usize, or: bool) -> (String, Goal) {
        let n = 2 + self.r.below(2); let mut ts = vec![]; let mut gs = vec![];
        for _ in 0..n {
            if d > 0 && self.r.chance(1, 2) {
                let inner_or = self.r.chance(1, 2);
                let (t, g) = self.nested(d - 1, inner_or);
                ts.push(if or && !inner_or { t } else { format!("({})", t) });
                gs.push(g);
            } else { let (t, x) = self.subgoal(0); ts.push(t); gs.push(x); }
        }
        if or { (ts.join("; "), Goal::OperatorGoal(Operator::Or(gs))) } else { (ts.join(", "), Goal::OperatorGoal(Operator::And(gs))) }
    }

    pub fn rule(&mut self) -> (String, Rule) {
        let (h, hv) = loop { let (t, v) = self.term(self.depth.saturating_sub(1)); if let Unifiable::SComplex(_) = v { break (t, v); } };
        if self.r.chance(2, 5) { return (format!("{}.", h), Rule{head: hv, body: Goal::Nil}); }
        let (b, bv) = self.body();
        (format!("{} :- {}.", h, b), Rule{head: hv, body: bv})
    }
}

fn rename_query(v: &Unifiable) -> Parsed {
    // what parse_query makes of a complex term: make_query renames from counter 0
    match v { Unifiable::SComplex(ts) => { Parsed::Goal(make_query(ts.clone())) }, _ => Parsed::Err }
}

pub fn run_grammar(out: &mut Out, cfg: &Cfg, seed: u64, n: usize) {
    let mut r = Rng::new(seed);
    for _ in 0..n {
        let mut g = Gen{r: &mut r, depth: 3};
        match g.r.below(8) {
            0 | 1 => { let (t, v) = g.term(0); emit_parse(out, cfg, "term", &t, Some(&Parsed::Term(zero(&v)))); },
            2 => { let (t, v) = loop { let x = g.term(0); if let Unifiable::SLinkedList{..} = x.1 { break x; } }; emit_parse(out, cfg, "list", &t, Some(&Parsed::Term(v))); },
            3 => { let (t, v) = loop { let x = g.term(0); if let Unifiable::SComplex(_) = x.1 { break x; } };
                   emit_parse(out, cfg, "complex", &t, Some(&Parsed::Term(v.clone())));
                   let q = catch_unwind(AssertUnwindSafe(|| rename_query(&v))).unwrap_or(Parsed::Panic);
                   emit_parse(out, cfg, "query", &t, Some(&q)); },
            4 => { let (t, v) = g.subgoal(0); emit_parse(out, cfg, "subgoal", &t, Some(&Parsed::Goal(v))); },
            5 => { let (t, v) = g.body(); emit_parse(out, cfg, "goal", &t, Some(&Parsed::Goal(v))); },
            _ => { let (t, v) = g.rule(); emit_parse(out, cfg, "rule", &t, Some(&Parsed::Rule(v))); },
        }
    }
}

const SYNTAX: [char; 22] = ['(', ')', '[', ']', '"', ',', '|', '\\', '.', '$', ' ', ';', '=', '<', '>', '+', '-', '*', '/', ':', '_', '!'];

pub fn run_mutations(out: &mut Out, cfg: &Cfg, seed: u64, n: usize) {
    let mut r = Rng::new(seed);
    for _ in 0..n {
        let (entry, text) = {
            let mut g = Gen{r: &mut r, depth: 2};
            match g.r.below(6) { 0 => ("term", g.term(0).0), 1 => ("subgoal", g.subgoal(0).0), 2 => ("goal", g.body().0), 3 => ("rule", g.rule().0),
                                 4 => ("query", loop { let x = g.term(0); if let Unifiable::SComplex(_) = x.1 { break x.0; } }), _ => ("complex", g.term(0).0) }
        };
        let mut cs: Vec<char> = text.chars().collect();
        let k = 1 + r.below(2);
        for _ in 0..k {
            if cs.is_empty() { break; }
            let pos = r.below(cs.len());
            match r.below(3) { 0 => { cs.remove(pos); }, 1 => { cs.insert(pos, *r.pick(&SYNTAX)); }, _ => { cs[pos] = *r.pick(&SYNTAX); } }
        }
        let s: String = cs.into_iter().collect();
        let entry = if r.chance(1, 4) { *r.pick(&ENTRIES) } else { entry };
        emit_parse(out, cfg, entry, &s, None);
    }
}

pub fn run_random_strings(out: &mut Out, cfg: &Cfg, seed: u64, n: usize) {
    let mut r = Rng::new(seed);
    let alpha: Vec<char> = SYNTAX.iter().cloned().chain("abxyXY019 é".chars()).collect();
    for _ in 0..n {
        let len = r.below(14);
        let s: String = (0..len).map(|_| *r.pick(&alpha)).collect();
        let entry = *r.pick(&ENTRIES);
        emit_parse(out, cfg, entry, &s, None);
    }
}

/// documented spellings that are not the printed form: quoted atoms (with blanks, commas, non-ASCII
/// letters inside), extra blanks around separators, goals and facts without `()`, infix comparison
/// and arithmetic. Each must parse, without panic, to the value it denotes.
pub fn run_spellings(out: &mut Out, cfg: &Cfg, seed: u64, n: usize) {
    let mut r = Rng::new(seed);
    let quoted = ["café", "日本", "東京 駅", "éa", "a, b", "Hello World", "x", "ünï cödé", "(not a term)", "[no list", "semi;colon", "Ω"];
    for i in 0..n {
        let q = *r.pick(&quoted);
        let qa = Unifiable::Atom(q.to_string());
        let v = *r.pick(&VARS);
        match i % 8 {
            0 => emit_spelling(out, cfg, "term", &format!("\"{}\"", q), Parsed::Term(qa)),
            1 => emit_spelling(out, cfg, "complex", &format!("f(\"{}\", {})", q, v), Parsed::Term(Unifiable::SComplex(vec![atom!("f"), qa, logic_var!(v)]))),
            2 => emit_spelling(out, cfg, "list", &format!("[a, \"{}\" | {}]", q, v), Parsed::Term(crate::gen::proper_list(vec![atom!("a"), qa], Some(logic_var!(v))))),
            3 => emit_spelling(out, cfg, "subgoal", &format!("{} = \"{}\"", v, q), Parsed::Goal(Goal::BuiltInGoal(BuiltInPredicate::new("unify".into(), Some(vec![logic_var!(v), qa]))))),
            4 => emit_spelling(out, cfg, "rule", &format!("g(\"{}\").", q), Parsed::Rule(Rule{head: Unifiable::SComplex(vec![atom!("g"), qa]), body: Goal::Nil})),
            5 => {
                // extra blanks around separators and brackets
                let mut g = Gen{r: &mut r, depth: 2};
                let (t, val) = loop { let x = g.term(0); if let Unifiable::SComplex(_) = x.1 { break x; } };
                let spaced = t.replace(", ", " ,   ").replace("(", "(  ").replace(")", " )");
                if !spaced.contains("[  ") && !t.contains("()") && !t.contains(" | ") && !t.contains('"') { emit_spelling(out, cfg, "complex", &format!("  {}  ", spaced), Parsed::Term(val)); }
            },
            6 => {
                // infix comparison / arithmetic
                let op = *r.pick(&[("<", "less_than"), ("<=", "less_than_or_equal"), (">", "greater_than"), (">=", "greater_than_or_equal"), ("==", "equal")]);
                let k = r.below(50) as i64;
                emit_spelling(out, cfg, "subgoal", &format!("{} {} {}", v, op.0, k), Parsed::Goal(Goal::BuiltInGoal(BuiltInPredicate::new(op.1.into(), Some(vec![logic_var!(v), SInteger(k)])))));
                let ar = *r.pick(&[("+", "add"), ("-", "subtract"), ("*", "multiply"), ("/", "divide")]);
                emit_spelling(out, cfg, "term", &format!("{} {} {}", v, ar.0, k), Parsed::Term(Unifiable::SFunction{name: ar.1.into(), terms: vec![logic_var!(v), SInteger(k)]}));
            },
            7 if i % 32 == 15 => {
                // bounded time: groups nested inside groups, 30 deep (about 190 characters)
                let pat = r.below(4);
                let d = 24 + r.below(8) as usize;
                let mut g = String::from("(x)");
                for _ in 0..d { g = match pat { 0 => format!("({},(x))", g), 1 => format!("((x),{})", g), 2 => format!("({};(y),(x))", g), _ => format!("((y);{},(x))", g) }; }
                emit_timed(out, cfg, "goal", &g);
                emit_timed(out, cfg, "rule", &format!("h :- {}.", g));
            },
            7 if i % 16 == 7 => {
                // parenthesised groups, also nested inside each other (documented: parentheses group goals)
                let a = || Goal::ComplexGoal(Unifiable::SComplex(vec![atom!("a")]));
                let b = || Goal::ComplexGoal(Unifiable::SComplex(vec![atom!("b")]));
                let c = || Goal::ComplexGoal(Unifiable::SComplex(vec![atom!("c")]));
                let d = || Goal::ComplexGoal(Unifiable::SComplex(vec![atom!("d")]));
                let and = |v: Vec<Goal>| Goal::OperatorGoal(Operator::And(v));
                let or = |v: Vec<Goal>| Goal::OperatorGoal(Operator::Or(v));
                match r.below(6) {
                    0 => emit_spelling(out, cfg, "goal", "(a; b), c", Parsed::Goal(and(vec![or(vec![a(), b()]), c()]))),
                    1 => emit_spelling(out, cfg, "goal", "a, (b; c)", Parsed::Goal(and(vec![a(), or(vec![b(), c()])]))),
                    2 => emit_spelling(out, cfg, "goal", "(a, b); (c, d)", Parsed::Goal(or(vec![and(vec![a(), b()]), and(vec![c(), d()])]))),
                    3 => emit_spelling(out, cfg, "goal", "a, (b, (c; d))", Parsed::Goal(and(vec![a(), and(vec![b(), or(vec![c(), d()])])]))),
                    4 => emit_spelling(out, cfg, "goal", "(a; b), c; d", Parsed::Goal(or(vec![and(vec![or(vec![a(), b()]), c()]), d()]))),
                    _ => emit_spelling(out, cfg, "goal", "a; b, (c; d)", Parsed::Goal(or(vec![a(), and(vec![b(), or(vec![c(), d()])])]))),
                }
            },
            _ => {
                // a goal / fact of arity 0 written without parentheses
                let f = *r.pick(&["halt", "go", "x", "ab"]);
                emit_spelling(out, cfg, "subgoal", f, Parsed::Goal(Goal::ComplexGoal(Unifiable::SComplex(vec![atom!(f)]))));
                emit_spelling(out, cfg, "rule", &format!("{}.", f), Parsed::Rule(Rule{head: Unifiable::SComplex(vec![atom!(f)]), body: Goal::Nil}));
                emit_spelling(out, cfg, "rule", &format!("{} :- {}, nl.", f, v.replace("$", "p_")), Parsed::Rule(Rule{head: Unifiable::SComplex(vec![atom!(f)]),
                    body: Goal::OperatorGoal(Operator::And(vec![Goal::ComplexGoal(Unifiable::SComplex(vec![atom!(v.replace("$", "p_"))])), Goal::BuiltInGoal(BuiltInPredicate::new("nl".into(), None))]))}));
            },
        }
    }
}

/// a parse that must come back within a second (property C18: bounded time)
fn emit_timed(out: &mut Out, cfg: &Cfg, entry: &str, s: &str) {
    if !out.begin() { return; }
    let id = out.case(&format!("parse {} {}", entry, hex(s)));
    let t0 = std::time::Instant::now();
    let p = run_entry(entry, s);
    let ms = t0.elapsed().as_millis();
    let printed = match &p { Parsed::Err | Parsed::Panic => String::new(), _ => match show(&p) { Some(t) => format!(" P {}", hex(&t)), None => " P panic".to_string() } };
    out.impl_line(id, &format!("{}{}", dump(&p), printed));
    out.stat("timed_parse", 1);
    if cfg.want("C18") {
        out.oracle(id, "C18", p != Parsed::Panic, &format!("parse_{} panicked on `{}`", entry, s));
        out.oracle(id, "C18", ms < 1000, &format!("parse_{} needed {} ms for the {} characters of `{}` (the time doubles with every level of nesting)", entry, ms, s.chars().count(), s));
    }
}

fn emit_spelling(out: &mut Out, cfg: &Cfg, entry: &str, s: &str, want: Parsed) {
    if !out.begin() { return; }
    let id = out.case(&format!("parse {} {}", entry, hex(s)));
    let p = run_entry(entry, s);
    let printed = match &p { Parsed::Err | Parsed::Panic => String::new(), _ => match show(&p) { Some(t) => format!(" P {}", hex(&t)), None => " P panic".to_string() } };
    out.impl_line(id, &format!("{}{}", dump(&p), printed));
    out.stat(&format!("spelling_{}_{}", entry, match &p { Parsed::Err => "err", Parsed::Panic => "panic", _ => "ok" }), 1);
    if cfg.want("C18") { out.oracle(id, "C18", p != Parsed::Panic, &format!("parse_{} panicked on `{}`", entry, s)); }
    if cfg.want("C19") {
        let ok = dump(&p) == dump(&want);
        out.oracle(id, "C19", ok, &format!("the documented spelling `{}` {}", s, match &p { Parsed::Err => "is rejected".to_string(), Parsed::Panic => "makes the parser panic".to_string(), _ => "parses to a different value than the one it denotes".to_string() }));
    }
}

/// all strings of length <= maxlen over a small alphabet aimed at the tokenizer and the grouping stage
pub fn run_exhaustive_goal_strings(out: &mut Out, cfg: &Cfg, maxlen: usize, shard: usize, nshards: usize) {
    let alpha: Vec<char> = vec!['a', '(', ')', ',', ';', ' ', '[', ']', '"', '\\'];
    let mut idx = 0usize;
    for len in 0..=maxlen {
        let total = alpha.len().pow(len as u32);
        for code in 0..total {
            idx += 1; if idx % nshards != shard { continue; }
            let mut c = code; let mut s = String::new();
            for _ in 0..len { s.push(alpha[c % alpha.len()]); c /= alpha.len(); }
            emit_parse(out, cfg, "goal", &s, None);
            if len + 5 <= maxlen + 5 { emit_parse(out, cfg, "rule", &format!("h :- {}.", s), None); }
        }
    }
}

/// all strings of length <= maxlen over a 12-symbol sub-alphabet, for every entry point
pub fn run_exhaustive_strings(out: &mut Out, cfg: &Cfg, maxlen: usize, shard: usize, nshards: usize) {
    let alpha: Vec<char> = vec!['a', '$', 'X', '1', '(', ')', '[', ']', ',', ' ', '=', '\\'];
    let mut idx = 0usize;
    for len in 0..=maxlen {
        let total = alpha.len().pow(len as u32);
        for code in 0..total {
            idx += 1; if idx % nshards != shard { continue; }
            let mut c = code; let mut s = String::new();
            for _ in 0..len { s.push(alpha[c % alpha.len()]); c /= alpha.len(); }
            for e in ENTRIES { emit_parse(out, cfg, e, &s, None); }
        }
    }
}

/// all sequences of up to `maxlen` TOKENS (not characters) written between the brackets of a list: bars, commas, blanks, quotes,
/// an atom and a variable — long enough for a tail variable with quotes after a missing element (`[| $X""]`, seeded change
/// C18r9: the quotes of the tail carried over to an empty element) — as a list, as a term, and inside a complex term
pub fn run_exhaustive_list_tokens(out: &mut Out, cfg: &Cfg, maxlen: usize, shard: usize, nshards: usize) {
    let alpha: Vec<&str> = vec!["|", ",", " ", "\"", "a", "$X"];
    let mut idx = 0usize;
    for len in 0..=maxlen {
        let total = alpha.len().pow(len as u32);
        for code in 0..total {
            idx += 1; if idx % nshards != shard { continue; }
            let mut c = code; let mut s = String::new();
            for _ in 0..len { s.push_str(alpha[c % alpha.len()]); c /= alpha.len(); }
            emit_parse(out, cfg, "list", &format!("[{}]", s), None);
            emit_parse(out, cfg, "term", &format!("[{}]", s), None);
            emit_parse(out, cfg, "complex", &format!("f([{}])", s), None);
        }
    }
}

// --------------------------------------------------------------------- C20: contexts

pub fn run_contexts(out: &mut Out, cfg: &Cfg, seed: u64, n: usize) {
    let mut r = Rng::new(seed);
    let specials = ["-3", "+7", "-0.5", "1.5", "-", "+", "*", "?", "!", "a-b", "1-2", "x+1", "$", "$1", "007", "1e5", "...", "a.b", "3.", ".5",
                    "1 2", "1.5 2", "12 ", " 12", "- 3", "12\u{a0}", "1\u{2003}2", "1\t2", "+", "+ 7", "7+", "-.5", "5.", "0", "-0", "9223372036854775807", "9223372036854775808", "-9223372036854775808",
                    "$Ω", "$é1", "$_x", "$_", "\\,", "a\\,b", "\"1 2\"", "\"12\"", "a\\b", "OK\\, sure", "\\5", "1\\2", "x\\;y", "\\a",
                    "(1)2", "[1]2", "(a)1", "1[2]", "1(2)3", "(1)", "(12)", "2(1)", "1\"a\"", "a\"b\"", "a\"b", "\"a\"b",
                    "\":)\"", "\"(\"", "\"a)b\"", "\"[x\"", "a\\)b", "x\\(y", "\"smile :)\"", "\"a, b\"", "\"]\"",
                    "４２", "１.５", "²", "½", "Ⅳ", "①", "٤٢", "१०", "4２", "x²",
                    "$X + 1", "1 + 2", "$A * $B", "a - b", "6 / 3", "1.5 + $X",
                    "555-1234", "2023-01-05", "10+20", "1.5-2.5", "7-", "-7-", "1e-5", "3-a", "a-3", "--3", "+-3"];
    // texts of fewer than 1000 characters and more than 1000 bytes (seeded change C20r11: the length limit of complex terms
    // counted in bytes): a Cyrillic word of 600 letters, a list of 100 Greek words, a quoted Cyrillic sentence
    let long_word: String = std::iter::repeat("ж").take(600).collect();
    let long_list: String = format!("[{}]", std::iter::repeat("λόγος").take(100).collect::<Vec<_>>().join(", "));
    let long_quoted: String = format!("\"{}\"", std::iter::repeat("слово").take(110).collect::<Vec<_>>().join(" "));
    let longs = [long_word, long_list, long_quoted];
    for i in 0..n {
        let text = if i < longs.len() { longs[i].clone() } else if i % 3 == 0 { (*r.pick(&specials)).to_string() } else { let mut g = Gen{r: &mut r, depth: 2}; g.term(0).0 };
        emit_context(out, cfg, &text);
    }
}

/// ALL strings up to `maxlen` over the characters the scanners treat specially, each in every context
pub fn run_exhaustive_contexts(out: &mut Out, cfg: &Cfg, maxlen: usize, shard: usize, nshards: usize) {
    let alpha: Vec<char> = vec!['a', '1', '.', '-', '"', '\\', '(', ')', '[', ']', ' ', '$'];
    let mut idx = 0usize;
    for len in 1..=maxlen {
        let total = alpha.len().pow(len as u32);
        for code in 0..total {
            idx += 1; if idx % nshards != shard { continue; }
            let mut c = code; let mut s = String::new();
            for _ in 0..len { s.push(alpha[c % alpha.len()]); c /= alpha.len(); }
            emit_context(out, cfg, &s);
        }
    }
}

pub fn emit_context(out: &mut Out, cfg: &Cfg, text: &str) {
    let text = text.to_string();
    {
        if !out.begin() { return; }
        let id = out.case(&format!("contexts {}", hex(&text)));
        let zero_ids = |t: &Unifiable| -> String { crate::suite_misc::zero_ids_pub(t) };
        let alone = run_entry("term", &text);
        let in_complex = run_entry("complex", &format!("f({})", text));
        let in_list = run_entry("list", &format!("[{}]", text));
        let in_infix = run_entry("subgoal", &format!("{} = x", text));
        let in_query = run_entry("query", &format!("q({})", text));
        // not the first of its siblings: after a float, after an atom with a period, after a quoted atom
        let in_complex2 = run_entry("complex", &format!("f(2.5, {})", text));
        let in_complex3 = run_entry("complex", &format!("f(\"x y\", a.b, {}, 1)", text));
        let in_list2 = run_entry("list", &format!("[0.5, {}]", text));
        let pick = |p: &Parsed, what: &str| -> String {
            match (p, what) {
                (Parsed::Term(Unifiable::SComplex(a)), "complex") if a.len() == 2 => format!("ok {}", zero_ids(&a[1])),
                (Parsed::Term(Unifiable::SLinkedList{term, ..}), "list") => format!("ok {}", zero_ids(term)),
                (Parsed::Goal(Goal::BuiltInGoal(b)), "infix") => match &b.terms { Some(ts) if ts.len() == 2 => format!("ok {}", zero_ids(&ts[0])), _ => "other".into() },
                (Parsed::Goal(Goal::ComplexGoal(Unifiable::SComplex(a))), "query") if a.len() == 2 => format!("ok {}", zero_ids(&a[1])),
                (Parsed::Term(t), "alone") => format!("ok {}", zero_ids(t)),
                (Parsed::Term(Unifiable::SComplex(a)), "complex2") if a.len() == 3 => format!("ok {}", zero_ids(&a[2])),
                (Parsed::Term(Unifiable::SComplex(a)), "complex3") if a.len() == 5 => format!("ok {}", zero_ids(&a[3])),
                (Parsed::Term(Unifiable::SLinkedList{next, ..}), "list2") => match &**next { Unifiable::SLinkedList{term, ..} => format!("ok {}", zero_ids(term)), _ => "other".into() },
                (Parsed::Err, _) => "err".into(), (Parsed::Panic, _) => "panic".into(),
                _ => "other".into(),
            }
        };
        let res = [pick(&alone, "alone"), pick(&in_complex, "complex"), pick(&in_list, "list"), pick(&in_infix, "infix"), pick(&in_query, "query"),
                   pick(&in_complex2, "complex2"), pick(&in_complex3, "complex3"), pick(&in_list2, "list2")];
        out.impl_line(id, &res.join(" | "));
        if cfg.want("C20") {
            // a text with a top-level comma / bar / bracket is several things in a larger context: only compare single terms
            // one term text: judged whenever some context accepts it (a context that rejects or panics while another accepts is a difference too)
            // commas that are escaped by a backslash do not separate anything
            let unescaped = { let cs: Vec<char> = text.chars().collect(); let mut o = String::new(); let mut i = 0;
                while i < cs.len() { if cs[i] == '\\' && i + 1 < cs.len() { i += 2; o.push('x'); } else { o.push(cs[i]); i += 1; } } o };
            let escape_inside = text.contains('\\') && text.chars().count() > 2;
            // a text can only be put inside a larger one when its parentheses, brackets and quotes are closed and it does not end in an escape
            // (scanned the way parse_arguments() scans an argument)
            let (embeddable, nested_special) = {
                let cs: Vec<char> = text.trim().chars().collect();
                let (mut r, mut q, mut oq, mut ok, mut nested, mut i) = (0i32, 0i32, false, true, false, 0usize);
                while i < cs.len() {
                    let c = cs[i];
                    if oq { if c == '"' { oq = false; } else if c == '\\' && i + 1 < cs.len() && cs[i + 1] == '"' { nested = true; } }
                    else if c == '"' { oq = true; }      // (since repair D23 paired quotes protect brackets at every depth)
                    else if c == '[' { q += 1; } else if c == ']' { q -= 1; } else if c == '(' { r += 1; } else if c == ')' { r -= 1; }
                    else if r == 0 && q == 0 {
                        if c == '\\' { if i + 1 < cs.len() { i += 1; } else { ok = false; } }
                    } else if c == '\\' { nested = true; }
                    if c == '\\' && i > 0 && cs[i - 1] == '\\' { nested = true; }   // an escaped backslash
                    if r < 0 || q < 0 { ok = false; }
                    i += 1;
                }
                (ok && r == 0 && q == 0 && !oq, nested)
            };
            let single = res.iter().any(|x| x.starts_with("ok ")) && !unescaped.contains(',') && !text.contains('|') && !text.contains(" = ") && !text.contains(" + ") && !text.contains(" - ") && !text.contains(" * ") && !text.contains(" / ");
            let arith = [" + ", " - ", " * ", " / "].iter().any(|op| text.contains(op)) && !text.contains(',') && !text.contains('|') && !text.contains(" = ");
            if arith && matches!(alone, Parsed::Term(Unifiable::SFunction{..})) {
                // an arithmetic expression: a function term alone; must be the same function term everywhere
                let all_same = res.iter().all(|x| *x == res[0]);
                let names = ["alone", "as argument", "as list element", "as infix operand", "as query argument", "as an argument after a float", "as an argument among other arguments", "as a list element after a float"];
                let k = res.iter().position(|x| *x != res[0]).unwrap_or(0);
                out.oracle(id, "C20", all_same, &format!("text with a top-level arithmetic infix: `{}` {} is {} but {} it is {}", text, names[0], crate::tools_pretty(&res[0]), names[k], crate::tools_pretty(&res[k])));
            } else
            if embeddable && (single || text.starts_with('[') || text.ends_with(')')) {
                let all_same = res.iter().all(|x| *x == res[0]);
                let names = ["alone", "as argument", "as list element", "as infix operand", "as query argument", "as an argument after a float", "as an argument among other arguments", "as a list element after a float"];
                let k = res.iter().position(|x| *x != res[0]).unwrap_or(0);
                let what = if nested_special { "text with a backslash inside its parentheses, brackets or quotes: " } else if escape_inside { "text with a backslash escape inside it: " } else { "" };
                out.oracle(id, "C20", all_same, &format!("{}`{}` {} is {} but {} it is {}", what, text, names[0], crate::tools_pretty(&res[0]), names[k], crate::tools_pretty(&res[k])));
            }
        }
    }
}

// --------------------------------------------------------------------- C21: reader

pub fn run_reader(out: &mut Out, cfg: &Cfg, seed: u64, n: usize) {
    let mut r = Rng::new(seed);
    let dir = std::env::temp_dir().join(format!("suiron_harness_reader_{}", std::process::id()));
    let _ = std::fs::create_dir_all(&dir);
    for ci in 0..n {
        let nrules = 1 + r.below(5);
        let mut texts = vec![];
        for _ in 0..nrules { let mut g = Gen{r: &mut r, depth: 2}; texts.push(g.rule().0); }
        // comment characters inside a list that is not inside parentheses
        if r.chance(1, 3) { texts.insert(r.below(texts.len() + 1), "channels($C) :- $C = [general, #random, %dev, a//b, announcements].".to_string()); }
        // floats written without an integer part, as infix operands outside parentheses (seeded change C21r9: a period
        // counted as a decimal point only between two digits)
        if r.chance(1, 3) {
            let t = *r.pick(&["half($X) :- $X = .5.", "small($X) :- $X < .25, $X >= .05.", "scale($X, $Y) :- $Y = $X * .5.",
                              "near($X) :- $X > -.5, $X < .5.", "rate(.125)."]);
            texts.insert(r.below(texts.len() + 1), t.to_string());
        }
        // layout: break lines after the documented continuation characters outside brackets, indent, blank lines, comments
        let mut file = String::new();
        for t in &texts {
            if r.chance(1, 4) { file.push_str(match r.below(3) { 0 => "# a comment\n", 1 => "% another one\n", _ => "// and a third\n" }); }
            if r.chance(1, 5) { file.push('\n'); }
            let cs: Vec<char> = t.chars().collect();
            let mut depth = 0i32; let mut round = 0i32; let mut quote = false;
            let mut i = 0;
            while i < cs.len() {
                let c = cs[i]; file.push(c);
                if c == '"' { quote = !quote; }
                if !quote { if c == '(' || c == '[' { depth += 1; } if c == ')' || c == ']' { depth -= 1; } if c == '(' { round += 1; } if c == ')' { round -= 1; } }
                let next_space = i + 1 < cs.len() && cs[i + 1] == ' ';
                let breakable = (depth == 0 || (round == 0 && c == ',')) && !quote && (c == ',' || c == ';' || c == '=' || (c == '-' && i > 0 && cs[i - 1] == ':')) && next_space;
                if breakable && r.chance(1, 3) {
                    if depth == 0 && r.chance(1, 4) { file.push_str("   # trailing comment"); }   // (a comment is only one outside parentheses and brackets)
                    file.push('\n');
                    if r.chance(1, 3) { file.push('\n'); }
                    for _ in 0..r.below(6) { file.push(' '); }
                    i += 1; // the space after the separator is replaced by the line break
                }
                i += 1;
            }
            if r.chance(1, 4) { file.push_str("  % end of rule"); }
            file.push('\n');
        }
        if !out.begin() { continue; }
        let texts0 = texts.clone();
        let id = out.case(&format!("reader {}", hex(&file)));
        let path = dir.join(format!("kb_{}.txt", ci));
        std::fs::write(&path, &file).unwrap();
        let loaded = catch_unwind(AssertUnwindSafe(|| { let mut kb = KnowledgeBase::new(); let e = load_kb_from_file(&mut kb, path.to_str().unwrap()); (kb, e) }));
        let _ = std::fs::remove_file(&path);
        let path2 = dir.join(format!("kb_{}_b.txt", ci));
        std::fs::write(&path2, &file).unwrap();
        let direct = catch_unwind(AssertUnwindSafe(|| { let mut kb = KnowledgeBase::new(); let mut err = None;
            for t in &texts { match parse_rule(t) { Ok(rule) => add_rules(&mut kb, vec![rule]), Err(e) => { err = Some(e); break; } } } (kb, err) }));
        // what the reader makes of the file before any rule is parsed
        let texts = match catch_unwind(AssertUnwindSafe(|| read_facts_and_rules(path2.to_str().unwrap()))) {
            Ok(Ok(ts)) => { let mut t = format!("texts {}", ts.len()); for x in &ts { t.push(' '); t.push_str(&hex(x)); t.push('.'); } t },
            Ok(Err(_)) => "texts err".to_string(), Err(_) => "texts panic".to_string() };
        let _ = std::fs::remove_file(&path2);
        // the same file loaded into a knowledge base that already holds these rules: every predicate must then
        // have its clauses twice, in order (loading appends, it does not replace)
        let path3 = dir.join(format!("kb_{}_c.txt", ci));
        std::fs::write(&path3, &file).unwrap();
        let appended = catch_unwind(AssertUnwindSafe(|| -> Option<(String, String)> {
            let mut pre = KnowledgeBase::new();
            for t in &texts0 { match parse_rule(t) { Ok(rule) => add_rules(&mut pre, vec![rule]), Err(_) => return None } }
            let mut twice = KnowledgeBase::new();
            for t in texts0.iter().chain(texts0.iter()) { match parse_rule(t) { Ok(rule) => add_rules(&mut twice, vec![rule]), Err(_) => return None } }
            if load_kb_from_file(&mut pre, path3.to_str().unwrap()).is_some() { return None; }
            Some((format_kb(&pre), format_kb(&twice)))
        }));
        let _ = std::fs::remove_file(&path3);
        let (rec, verdict): (String, Result<(), String>) = match (&loaded, &direct) {
            (Ok((kb1, e1)), Ok((kb2, e2))) => {
                let rec = match e1 { None => {
                        let mut keys: Vec<&String> = kb1.keys().collect(); keys.sort();
                        let mut t = format!("kb {}", keys.iter().map(|k| kb1[*k].len()).sum::<usize>());
                        for k in keys { for r in &kb1[k] { t.push(' '); enc_rule(r, &mut t); } }
                        t },
                    Some(_) => "kb err".to_string() };
                let rec = format!("{} ; {}", texts, rec);
                let v = if e2.is_some() { Ok(()) }      // a rule the rule parser itself rejects: outside (C19's business)
                        else if e1.is_some() {
                            // a comment character inside brackets that were opened on an earlier line (the reader counts brackets line by line)
                            let carried = { let (mut r, mut q, mut inq, mut found) = (0i32, 0i32, false, false);
                                for line in file.split('\n') { let (mut lr, mut lq) = (0i32, 0i32); let mut prev = 'x';
                                    for c in line.chars() {
                                        if c == '"' { inq = !inq; } else if !inq {
                                            if c == '(' { r += 1; lr += 1; } else if c == ')' { r -= 1; lr -= 1; } else if c == '[' { q += 1; lq += 1; } else if c == ']' { q -= 1; lq -= 1; }
                                            else if (c == '#' || c == '%' || (c == '/' && prev == '/')) && lr == 0 && lq == 0 { if r != 0 || q != 0 { found = true; } break; } }
                                        prev = c; } }
                                found };
                            let what = if carried { "comment character inside brackets opened on an earlier line: " } else { "" };
                            Err(format!("{}a file of parsable rules was rejected: {}", what, e1.clone().unwrap())) }
                        else if format_kb(kb1) != format_kb(kb2) { Err("the loaded knowledge base differs from parsing the rules one by one".to_string()) }
                        else if let Ok(Some((a, b))) = &appended { if a != b { Err("loading into a knowledge base that already holds clauses of the same predicates does not append the file's rules in order".to_string()) } else { Ok(()) } }
                        else { Ok(()) };
                (rec, v)
            },
            (Err(_), _) => (format!("{} ; kb panic", texts), Err("loading the file panicked".into())),
            (Ok((kb1, e1)), Err(_)) => {
                // the direct parse of a rule panicked; the loaded side is still compared with the model
                let rec = match e1 { None => {
                        let mut keys: Vec<&String> = kb1.keys().collect(); keys.sort();
                        let mut t = format!("kb {}", keys.iter().map(|k| kb1[*k].len()).sum::<usize>());
                        for k in keys { for r in &kb1[k] { t.push(' '); enc_rule(r, &mut t); } }
                        t },
                    Some(_) => "kb err".to_string() };
                (format!("{} ; {}", texts, rec), Ok(())) },
        };
        out.impl_line(id, &rec);
        if cfg.want("C21") { match verdict { Ok(()) => out.oracle(id, "C21", true, ""), Err(m) => out.oracle(id, "C21", false, &m) } }
    }
    let _ = std::fs::remove_dir_all(&dir);
}
