//! Suite `timer`: histories of queries run through next_solution / solve / solve_all on one
//! knowledge base, with the verification hook placing the timer's flag write at a chosen tick.
//! Oracles: C22 (each query's results equal those of the same query run in a fresh state),
//! C23 (solve / solve_all results are real answers, "No more." or the timeout message).
use std::rc::Rc;
use std::cell::RefCell;
use std::panic::{catch_unwind, AssertUnwindSafe};
use suiron::*;
use crate::prng::Rng;
use crate::codec::*;
use crate::out::Out;
use crate::suite_engine::{gen_program, Weights, Cfg, acyclic};

#[derive(Clone)]
pub enum Op {
    Run{api: char, fire: usize, query: Vec<Unifiable>},   // api: 'N' next_solution, 'S' solve, 'A' solve_all
    New{h: usize, query: Vec<Unifiable>},                 // build a query + base node, keep the handle
    Next{h: usize},                                       // one next_solution() on a kept handle
}

pub struct Case { pub rules: Vec<Rule>, pub ops: Vec<Op> }

pub fn enc_case(c: &Case) -> String {
    let mut s = format!("timer RULES {}", c.rules.len());
    for r in &c.rules { s.push(' '); enc_rule(r, &mut s); }
    s.push_str(&format!(" OPS {}", c.ops.len()));
    for op in &c.ops {
        match op {
            Op::Run{api, fire, query} => { s.push_str(&format!(" RUN {} {} {}", api, fire, query.len())); for t in query { s.push(' '); enc_term(t, &mut s); } },
            Op::New{h, query} => { s.push_str(&format!(" NEW {} {}", h, query.len())); for t in query { s.push(' '); enc_term(t, &mut s); } },
            Op::Next{h} => { s.push_str(&format!(" NEXT {}", h)); },
        }
    }
    s
}

pub fn dec_case(body: &str) -> Option<Case> {
    let toks: Vec<&str> = body.split_whitespace().collect();
    if toks.get(0) != Some(&"timer") || toks.get(1) != Some(&"RULES") { return None; }
    let nr: usize = toks.get(2)?.parse().ok()?; let mut i = 3;
    let mut rules = vec![]; for _ in 0..nr { rules.push(dec_rule(&toks, &mut i)?); }
    if toks.get(i) != Some(&"OPS") { return None; }
    let no: usize = toks.get(i + 1)?.parse().ok()?; i += 2;
    let mut ops = vec![];
    for _ in 0..no {
        match *toks.get(i)? {
            "RUN" => { let api = toks.get(i + 1)?.chars().next()?; let fire: usize = toks.get(i + 2)?.parse().ok()?; let nq: usize = toks.get(i + 3)?.parse().ok()?; i += 4;
                       let mut q = vec![]; for _ in 0..nq { q.push(dec_term(&toks, &mut i)?); } ops.push(Op::Run{api, fire, query: q}); },
            "NEW" => { let h: usize = toks.get(i + 1)?.parse().ok()?; let nq: usize = toks.get(i + 2)?.parse().ok()?; i += 3;
                       let mut q = vec![]; for _ in 0..nq { q.push(dec_term(&toks, &mut i)?); } ops.push(Op::New{h, query: q}); },
            "NEXT" => { let h: usize = toks.get(i + 1)?.parse().ok()?; i += 2; ops.push(Op::Next{h}); },
            _ => return None,
        }
    }
    Some(Case{rules, ops})
}

const MAX_CALLS: usize = 30;


/// the query as the API user would build it: half of the queries (chosen by their text, so that the same query takes the
/// same route in every run) go through `parse_query()` on their printed text, the others through `make_query()`.
/// Nothing else is called on the parse route — in particular not `make_query()`, which resets the process state.
fn same_shape(a: &Unifiable, b: &Unifiable) -> bool {
    match (a, b) {
        (Unifiable::LogicVar{name: n1, ..}, Unifiable::LogicVar{name: n2, ..}) => n1 == n2,
        (Unifiable::SComplex(x), Unifiable::SComplex(y)) => x.len() == y.len() && x.iter().zip(y.iter()).all(|(p, q)| same_shape(p, q)),
        (Unifiable::LogicVar{..}, _) | (_, Unifiable::LogicVar{..}) | (Unifiable::SComplex(_), _) | (_, Unifiable::SComplex(_)) => false,
        _ => a == b,
    }
}
fn build_query(query: &Vec<Unifiable>) -> Goal {
    let text = match catch_unwind(AssertUnwindSafe(|| format!("{}", Unifiable::SComplex(query.clone())))) { Ok(t) => t, Err(_) => return make_query(query.clone()) };
    let mut hsh: u64 = 0xcbf29ce484222325; for b in text.bytes() { hsh ^= b as u64; hsh = hsh.wrapping_mul(0x100000001b3); }
    if hsh % 2 == 0 {
        if let Ok(Ok(g)) = catch_unwind(AssertUnwindSafe(|| parse_query(&text))) {
            if let Goal::ComplexGoal(Unifiable::SComplex(ts)) = &g {
                if ts.len() == query.len() && ts.iter().zip(query.iter()).all(|(p, q)| same_shape(p, q)) { return g; }
            }
        }
    }
    make_query(query.clone())
}

/// run one whole-API op on a freshly built query; returns the record
fn run_op<'a>(kb: &'a KnowledgeBase, api: char, fire: usize, query: &Vec<Unifiable>, cap: &mut crate::capture::Capture) -> String {
    let q = Rc::new(build_query(query));
    let sn = make_base_node(Rc::clone(&q), kb);
    let mut parts: Vec<String> = vec![];
    cap.take();
    match api {
        'N' => {
            for _ in 0..MAX_CALLS {
                verif_arm(fire);
                let r = next_solution(Rc::clone(&sn));
                verif_arm(0);
                let o = cap.take();
                match r {
                    None => { parts.push(format!("none O {}", hex(&o))); break; },
                    Some(ss) => {
                        if !acyclic(&ss) { parts.push("CYCLIC".into()); break; }
                        let a = q.replace_variables(&ss);
                        parts.push(format!("A {} O {}", term_str(&a), hex(&o)));
                    },
                }
            }
        },
        'S' => {
            for _ in 0..MAX_CALLS {
                verif_arm(fire);
                let s = solve(Rc::clone(&sn));
                verif_arm(0);
                let o = cap.take();
                parts.push(format!("S {} O {}", hex(&s), hex(&o)));
                if s == "No more." || s.starts_with("Query timed out") { break; }
            }
        },
        _ => {
            verif_arm(fire);
            let v = solve_all(Rc::clone(&sn));
            verif_arm(0);
            let o = cap.take();
            let hs: Vec<String> = v.iter().map(|s| hex(s)).collect();
            parts.push(format!("ALL {}{} O {}", v.len(), hs.iter().map(|h| format!(" {}", h)).collect::<String>(), hex(&o)));
        },
    }
    parts.join(" , ")
}

pub fn run_impl(c: &Case, cap: &mut crate::capture::Capture, fresh_each: bool) -> Vec<String> {
    let mut recs = vec![];
    start_query();
    let mut kb = KnowledgeBase::new();
    add_rules(&mut kb, c.rules.clone());
    let mut handles: Vec<Option<(Rc<Goal>, Rc<RefCell<SolutionNode>>)>> = vec![None, None, None, None];
    for op in &c.ops {
        if fresh_each { start_query(); }
        let r = catch_unwind(AssertUnwindSafe(|| {
            match op {
                Op::Run{api, fire, query} => run_op(&kb, *api, *fire, query, cap),
                Op::New{h, query} => {
                    let q = Rc::new(build_query(query));
                    let sn = make_base_node(Rc::clone(&q), &kb);
                    handles[*h] = Some((q, sn));
                    "new".to_string()
                },
                Op::Next{h} => {
                    match &handles[*h] {
                        None => "nohandle".to_string(),
                        Some((q, sn)) => {
                            cap.take();
                            let r = next_solution(Rc::clone(sn));
                            let o = cap.take();
                            match r {
                                None => format!("none O {}", hex(&o)),
                                Some(ss) => if !acyclic(&ss) { "CYCLIC".to_string() } else { format!("A {} O {}", term_str(&q.replace_variables(&ss)), hex(&o)) },
                            }
                        },
                    }
                },
            }
        }));
        match r {
            Ok(s) => recs.push(s),
            Err(_) => {
                recs.push("P".into());
                // solve()/solve_all() never reached cancel_timer(): let the leaked timer fire now,
                // not in the middle of a later case
                std::thread::sleep(std::time::Duration::from_millis(1100));
                start_query();
                break;
            },
        }
    }
    verif_arm(0);
    recs
}

const TIMEOUT_MSG: &str = "Query timed out after 1000 milliseconds.";

pub fn emit(out: &mut Out, cfg: &Cfg, c: &Case) {
    if !out.begin() { return; }
    let id = out.case(&enc_case(c));
    let t0 = std::time::Instant::now();
    let mut recs = run_impl(c, &mut out.cap, false);
    // a REAL timeout (no tick was armed for the operation) in a run that took most of a second of wall-clock time: the process
    // was not given the processor (16 cores shared with other builds); the properties allow a search that really exceeds the
    // limit to be cut short, so such a run says nothing — it is taken once more (DESIGN 7)
    let real_timeout = c.ops.iter().enumerate().any(|(i, op)| matches!(op, Op::Run{fire: 0, ..})
        && recs.get(i).map(|r| r.contains(&hex(TIMEOUT_MSG))).unwrap_or(false));
    if real_timeout && t0.elapsed().as_millis() >= 900 {
        out.stat("rerun_after_real_timeout_under_load", 1);
        recs = run_impl(c, &mut out.cap, false);
    }
    out.impl_line(id, &recs.join(" ; "));
    let cyclic = recs.iter().any(|r| r.contains("CYCLIC") || r == "P");
    // ---- C22: every op gives what it gives when the process state is fresh
    if cfg.want("C22") && !cyclic {
        let mut ok = true; let mut msg = String::new();
        for (i, op) in c.ops.iter().enumerate() {
            match op {
                Op::Run{..} => {
                    let alone = Case{rules: c.rules.clone(), ops: vec![op.clone()]};
                    let r2 = run_impl(&alone, &mut out.cap, true);
                    if r2.get(0) != recs.get(i) { ok = false; msg = format!("operation {} gives a different result after the earlier operations than in a fresh state", i + 1); break; }
                },
                _ => {},
            }
        }
        if ok {
            // interleaved handles: the answers of each handle are those of its query run alone
            for h in 0..4 {
                let mine: Vec<usize> = c.ops.iter().enumerate().filter(|(_, o)| matches!(o, Op::New{h: hh, ..} | Op::Next{h: hh} if *hh == h)).map(|(i, _)| i).collect();
                if mine.is_empty() { continue; }
                // split at each NEW
                let mut seg: Vec<usize> = vec![];
                let mut segs: Vec<Vec<usize>> = vec![];
                for i in mine { if let Op::New{..} = c.ops[i] { if !seg.is_empty() { segs.push(seg.clone()); } seg = vec![i]; } else { seg.push(i); } }
                if !seg.is_empty() { segs.push(seg); }
                for s in segs {
                    if !matches!(c.ops[s[0]], Op::New{..}) { continue; }
                    let alone = Case{rules: c.rules.clone(), ops: s.iter().map(|i| c.ops[*i].clone()).collect()};
                    let r2 = run_impl(&alone, &mut out.cap, false);
                    let r1: Vec<String> = s.iter().filter_map(|i| recs.get(*i).cloned()).collect();
                    if r2.iter().any(|x| x.contains("CYCLIC") || x == "P") { continue; }
                    if canon(&r1) != canon(&r2) {
                        ok = false;
                        // was another query CONSTRUCTED between two requests of this one? (the constructor resets the shared variable counter)
                        let lo = s[0]; let hi = *s.last().unwrap();
                        let built_between = (lo + 1..hi).any(|i| !s.contains(&i) && matches!(c.ops[i], Op::New{..} | Op::Run{..}));
                        msg = if built_between { format!("the query on handle {} answers differently: another query was constructed while this one was still being asked", h) }
                              else { format!("the query on handle {} answers differently when requests on other queries are interleaved", h) };
                        break;
                    }
                }
                if !ok { break; }
            }
        }
        out.oracle(id, "C22", ok, &msg);
    }
    // ---- C23: solve / solve_all against the untimed answers
    if cfg.want("C23") && !cyclic {
        let mut ok = true; let mut msg = String::new();
        for (i, op) in c.ops.iter().enumerate() {
            if let Op::Run{api, fire, query} = op {
                if *api == 'N' { continue; }
                let untimed = Case{rules: c.rules.clone(), ops: vec![Op::Run{api: 'A', fire: 0, query: query.clone()}]};
                let ru = run_impl(&untimed, &mut out.cap, true);
                let all = all_strings(ru.get(0).map(|s| s.as_str()).unwrap_or(""));
                if all.iter().any(|s| s == TIMEOUT_MSG) { continue; }      // genuinely slow: judged by the real-timer runs
                if all.len() >= MAX_CALLS { continue; }
                let rec = match recs.get(i) { Some(r) => r, None => continue };
                if *api == 'A' {
                    let got = all_strings(rec);
                    let timed_out = got.last().map(|s| s == TIMEOUT_MSG).unwrap_or(false);
                    let body = if timed_out { &got[..got.len() - 1] } else { &got[..] };
                    if body.iter().any(|s| s == TIMEOUT_MSG) { ok = false; msg = "timeout message in the middle of the results".into(); }
                    else if body.len() > all.len() || body != &all[..body.len()] { ok = false; msg = format!("operation {}: solve_all returned something that is not a prefix of the query's answers", i + 1); }
                    else if !timed_out && body.len() != all.len() { ok = false; msg = format!("operation {}: solve_all returned an incomplete list without the timeout message", i + 1); }
                    else if *fire == 0 && timed_out { ok = false; msg = format!("operation {}: reported as timed out although the timer never fired", i + 1); }
                } else {
                    let got: Vec<String> = rec.split(" , ").filter_map(|p| { let t: Vec<&str> = p.split(' ').collect(); if t.get(0) == Some(&"S") { unhex(t.get(1).unwrap_or(&"")) } else { None } }).collect();
                    for (j, s) in got.iter().enumerate() {
                        let fine = if s == TIMEOUT_MSG { *fire != 0 } else if s == "No more." { j == all.len() } else { all.get(j) == Some(s) };
                        if !fine { ok = false; msg = format!("operation {}: solve call {} returned `{}`", i + 1, j + 1, s); break; }
                    }
                }
                if !ok { break; }
            }
        }
        out.oracle(id, "C23", ok, &msg);
    }
}

fn all_strings(rec: &str) -> Vec<String> {
    let t: Vec<&str> = rec.split(' ').collect();
    if t.get(0) != Some(&"ALL") { return vec![]; }
    let n: usize = t.get(1).and_then(|x| x.parse().ok()).unwrap_or(0);
    (0..n).filter_map(|i| t.get(2 + i).and_then(|h| unhex(h))).collect()
}

/// answers with variable ids replaced by first-occurrence numbers (interleaving shifts ids)
fn canon(recs: &[String]) -> Vec<String> {
    recs.iter().map(|r| {
        let mut m: Vec<String> = vec![]; let mut toks = vec![];
        let mut after_o = false;
        for t in r.split(' ') {
            if t.starts_with("V:") { let id = t.split(':').nth(1).unwrap_or("").to_string(); let k = match m.iter().position(|x| *x == id) { Some(k) => k, None => { m.push(id); m.len() - 1 } }; let name = t.split(':').nth(2).unwrap_or(""); toks.push(format!("V#{}:{}", k, name)); }
            else if after_o && !t.is_empty() && t != "," {
                // captured output: an unbound variable is printed as `$Name_<id>`; the id is renumbered like the ids of the answers
                match unhex(t) {
                    Some(text) => {
                        let cs: Vec<char> = text.chars().collect(); let mut o = String::new(); let mut i = 0;
                        while i < cs.len() {
                            if cs[i] == '$' && i + 1 < cs.len() && cs[i + 1].is_alphabetic() {
                                let mut j = i + 1; while j < cs.len() && (cs[j].is_alphanumeric() || cs[j] == '_') { j += 1; }
                                let word: String = cs[i..j].iter().collect();
                                match word.rfind('_') {
                                    Some(u) if u + 1 < word.len() && word[u + 1..].chars().all(|c| c.is_ascii_digit()) => {
                                        let id = word[u + 1..].to_string();
                                        let k = match m.iter().position(|x| *x == id) { Some(k) => k, None => { m.push(id); m.len() - 1 } };
                                        o.push_str(&format!("{}_#{}", &word[..u], k));
                                    },
                                    _ => o.push_str(&word),
                                }
                                i = j;
                            } else { o.push(cs[i]); i += 1; }
                        }
                        toks.push(format!("T:{}", hex(&o)));
                    },
                    None => toks.push(t.to_string()),
                }
            }
            else { toks.push(t.to_string()); }
            after_o = t == "O";
        }
        toks.join(" ")
    }).collect()
}

pub fn gen_case(r: &mut Rng, interleave: bool) -> Case {
    // no arithmetic: a panic inside solve()/solve_all() would leak their timer thread
    let mut w = Weights::all(); w.print = 1; w.arith = 0;
    let prog = gen_program(r, &w);
    let arity = prog.query.len() - 1;
    let qname = prog.query[0].clone();
    let mut mkq = |r: &mut Rng| -> Vec<Unifiable> {
        let mut q = vec![qname.clone()];
        for i in 0..arity { q.push(if r.chance(3, 4) { logic_var!(["$A", "$B", "$C"][i % 3]) } else { atom!(*r.pick(&["a", "b"])) }); }
        q
    };
    let n = 1 + r.below(5);
    let mut ops = vec![];
    if interleave {
        ops.push(Op::New{h: 0, query: mkq(r)});
        for _ in 0..(2 + r.below(8)) {
            match r.below(6) {
                0 => { let h = r.below(3); ops.push(Op::New{h, query: mkq(r)}); },
                1 => ops.push(Op::Run{api: *r.pick(&['N', 'S', 'A']), fire: 0, query: mkq(r)}),
                _ => ops.push(Op::Next{h: r.below(3)}),
            }
        }
    } else {
        for _ in 0..n {
            let api = *r.pick(&['N', 'S', 'A', 'A', 'S']);
            let fire = if r.chance(1, 2) || (api == 'N' && r.chance(1, 2)) { 0 } else { 1 + r.below(12) };
            ops.push(Op::Run{api, fire, query: mkq(r)});
        }
    }
    Case{rules: prog.rules, ops}
}

/// solve()/solve_all() resolve answers themselves: a program in which an occurs-check situation
/// or a panic can arise must not reach them (the harness could not guard the call)
fn safe(out: &mut Out, c: &Case) -> bool {
    for op in &c.ops {
        let q = match op { Op::Run{query, ..} | Op::New{query, ..} => query.clone(), _ => continue };
        let ec = crate::suite_engine::Case{rules: c.rules.clone(), query: q, max_calls: MAX_CALLS + 2, extra: 0};
        let (rec, _, _) = crate::suite_engine::run_impl(&ec, &mut out.cap);
        if rec.contains("CYCLIC") || rec.contains("PANIC") || rec.ends_with("P") || !rec.contains("N C") { return false; }
    }
    true
}

pub fn run_random(out: &mut Out, cfg: &Cfg, seed: u64, n: usize, interleave: bool) {
    let mut r = Rng::new(seed);
    for _ in 0..n {
        let c = gen_case(&mut r, interleave);
        if !safe(out, &c) { out.stat("skipped_unsafe_program", 1); continue; }
        emit(out, cfg, &c);
    }
}

/// every flip point: for each program, solve_all and solve with the flag write at every tick 1..=T+1
/// programs whose query has NO answer because a negated goal in tail position is provable: a search of the negated goal that
/// is cut short must not turn into an answer
fn not_tail_programs() -> Vec<(Vec<Rule>, Vec<Unifiable>)> {
    let x = || logic_var!("$X"); let y = || logic_var!("$Y");
    let fact = |f: &str, v: i64| Rule{head: scomplex!(atom!(f), SInteger(v)), body: Goal::Nil};
    let call = |f: &str, a: Unifiable| Goal::ComplexGoal(scomplex!(atom!(f), a));
    let unify = |a: Unifiable, b: Unifiable| Goal::BuiltInGoal(BuiltInPredicate::new("unify".into(), Some(vec![a, b])));
    let not = |g: Goal| Goal::OperatorGoal(Operator::Not(vec![g]));
    let q_rule = Rule{head: scomplex!(atom!("q"), x()), body: Goal::OperatorGoal(Operator::And(vec![unify(x(), atom!("yes")), not(call("g", y()))]))};
    let g1 = Rule{head: scomplex!(atom!("g"), y()), body: call("h", y())};
    let g2 = Rule{head: scomplex!(atom!("g"), y()), body: Goal::OperatorGoal(Operator::And(vec![call("h", y()), call("k", y())]))};
    let top = Rule{head: scomplex!(atom!("top"), x()), body: call("q", x())};
    vec![
        (vec![q_rule.clone(), g1.clone(), fact("h", 1), fact("h", 2)], vec![atom!("q"), logic_var!("$A")]),
        (vec![q_rule.clone(), g2.clone(), fact("h", 1), fact("h", 2), fact("k", 2)], vec![atom!("q"), logic_var!("$A")]),
        (vec![top, q_rule, g2, fact("h", 1), fact("h", 2), fact("k", 2)], vec![atom!("top"), logic_var!("$A")]),
    ]
}

pub fn run_all_ticks(out: &mut Out, cfg: &Cfg, seed: u64, n: usize) {
    for (rules, query) in not_tail_programs() {
        for k in 1..=14 {
            for api in ['A', 'S', 'N'] {
                let c = Case{rules: rules.clone(), ops: vec![Op::Run{api, fire: k, query: query.clone()}, Op::Run{api: 'A', fire: 0, query: query.clone()}]};
                emit(out, cfg, &c);
                out.stat("not_in_tail_position_cases", 1);
            }
        }
    }
    let mut r = Rng::new(seed);
    for _ in 0..n {
        let base = gen_case(&mut r, false);
        if !safe(out, &base) { continue; }
        let query = match &base.ops[0] { Op::Run{query, ..} => query.clone(), _ => continue };
        // count the ticks of the untimed run
        start_query();
        let mut kb = KnowledgeBase::new(); add_rules(&mut kb, base.rules.clone());
        let ticks = match catch_unwind(AssertUnwindSafe(|| {
            let q = Rc::new(make_query(query.clone())); let sn = make_base_node(Rc::clone(&q), &kb);
            verif_arm(0); let _ = solve_all(sn); verif_ticks()
        })) { Ok(t) => t, Err(_) => continue };
        out.cap.take();
        if ticks > 60 { continue; }
        for k in 1..=(ticks + 1) {
            for api in ['A', 'S'] {
                let c = Case{rules: base.rules.clone(), ops: vec![Op::Run{api, fire: k, query: query.clone()}, Op::Run{api: 'A', fire: 0, query: query.clone()}]};
                emit(out, cfg, &c);
            }
        }
    }
}

/// C05 across a time-out: a query that answered none while the stop flag was set stays exhausted when another query has
/// been built since (the constructors clear the flag) — it answers none again and writes nothing
pub fn run_stopped(out: &mut Out, cfg: &Cfg, seed: u64, n: usize) {
    if !out.begin() { return; }
    let id = out.case("timer-stopped");
    out.impl_line(id, "stopped");
    let mut ok = true; let mut msg = String::new();
    let mut r = Rng::new(seed);
    let mut tried = 0u64; let mut stopped_runs = 0u64;
    for _ in 0..n {
        let c = gen_case(&mut r, false);
        if !safe(out, &c) { continue; }
        let query = match &c.ops[0] { Op::Run{query, ..} => query.clone(), _ => continue };
        for k in 1..=8usize {
            start_query();
            let mut kb = KnowledgeBase::new(); add_rules(&mut kb, c.rules.clone());
            let res = catch_unwind(AssertUnwindSafe(|| {
                let q = Rc::new(make_query(query.clone())); let sn = make_base_node(Rc::clone(&q), &kb);
                verif_arm(k);
                let mut reached_none = false;
                for _ in 0..MAX_CALLS { if next_solution(Rc::clone(&sn)).is_none() { reached_none = true; break; } }
                verif_arm(0);
                let was_stopped = query_stopped();
                out.cap.take();
                if !reached_none { return (false, None); }
                // another query is built: the stop flag is cleared, the counter reset
                let _q2 = make_query(query.clone());
                for j in 0..3 {
                    let a = next_solution(Rc::clone(&sn));
                    let o = out.cap.take();
                    if a.is_some() { return (was_stopped, Some(format!("a query that had answered none {}answers again on request {} after another query was built", if was_stopped { "while it was stopped " } else { "" }, j + 1))); }
                    if !o.is_empty() { return (was_stopped, Some(format!("an exhausted query writes `{}` on request {} after another query was built", o, j + 1))); }
                }
                (was_stopped, None)
            }));
            tried += 1;
            match res {
                Ok((st, None)) => { if st { stopped_runs += 1; } },
                Ok((st, Some(m))) => { if st { stopped_runs += 1; } if ok { ok = false; msg = m; } },
                Err(_) => { verif_arm(0); out.cap.take(); },
            }
        }
    }
    start_query();
    out.stat("stopped_then_cleared_runs", tried);
    out.stat("stopped_then_cleared_runs_with_the_flag_set", stopped_runs);
    if cfg.want("C05") { out.oracle(id, "C05", ok, &msg); }
}

/// real timer, no hook: fast queries must never time out; a search of a few seconds must
pub fn run_real_timer(out: &mut Out, cfg: &Cfg, slow: usize) {
    if !out.begin() { return; }
    let id = out.case("timer-real");
    let mut ok = true; let mut msg = String::new();
    // fast: 200 small queries through solve_all and solve
    let mut r = Rng::new(99);
    for _ in 0..200 {
        let c = gen_case(&mut r, false);
        if !safe(out, &c) { continue; }
        let c2 = Case{rules: c.rules.clone(), ops: c.ops.iter().map(|o| match o { Op::Run{api, query, ..} => Op::Run{api: *api, fire: 0, query: query.clone()}, x => x.clone() }).collect()};
        let t0 = std::time::Instant::now();
        let recs = run_impl(&c2, &mut out.cap, false);
        if t0.elapsed().as_millis() < 300 && recs.iter().any(|x| x.contains(&hex(TIMEOUT_MSG))) { ok = false; msg = "a search that finished well within the limit was reported as timed out".into(); break; }
    }
    // slow: gen/1 with 12 facts, body of 7 calls then fail: 12^7 combinations, several seconds
    for s in 0..slow {
        let mut rules = vec![];
        for i in 0..12 { rules.push(Rule{head: scomplex!(atom!("gen"), SInteger(i)), body: Goal::Nil}); }
        let names = ["$A", "$B", "$C", "$D", "$E", "$F", "$G"];
        let mut gs: Vec<Goal> = vec![];
        // first answer quickly, then a long search
        let mut head = vec![atom!("slow")]; for n in names { head.push(logic_var!(n)); }
        for n in names { gs.push(Goal::ComplexGoal(scomplex!(atom!("gen"), logic_var!(n)))); }
        if s % 2 == 0 { gs.push(Goal::BuiltInGoal(BuiltInPredicate::new("equal".into(), Some(vec![logic_var!("$A"), SInteger(0)])))); gs.push(Goal::BuiltInGoal(BuiltInPredicate::new("less_than".into(), Some(vec![logic_var!("$G"), SInteger(1)])))); gs.push(Goal::BuiltInGoal(BuiltInPredicate::new("less_than".into(), Some(vec![logic_var!("$F"), SInteger(1)])))); gs.push(Goal::BuiltInGoal(BuiltInPredicate::new("less_than".into(), Some(vec![logic_var!("$E"), SInteger(1)])))); gs.push(Goal::BuiltInGoal(BuiltInPredicate::new("less_than".into(), Some(vec![logic_var!("$D"), SInteger(1)])))); }
        else { gs.push(Goal::BuiltInGoal(BuiltInPredicate::new("fail".into(), None))); }
        rules.push(Rule{head: Unifiable::SComplex(head), body: Goal::OperatorGoal(Operator::And(gs))});
        start_query();
        let mut kb = KnowledgeBase::new(); add_rules(&mut kb, rules);
        let mut q = vec![atom!("slow")]; for n in names { q.push(logic_var!(n)); }
        let q = Rc::new(make_query(q)); let sn = make_base_node(Rc::clone(&q), &kb);
        verif_arm(0);
        let t0 = std::time::Instant::now();
        let v = solve_all(sn);
        let ms = t0.elapsed().as_millis();
        out.cap.take();
        let timed = v.last().map(|x| x == TIMEOUT_MSG).unwrap_or(false);
        out.stat("real_timer_slow_runs", 1);
        out.stat(&format!("real_timer_slow_run_ms_{}_answers_{}", ms / 100 * 100, v.len()), 1);
        if ms < 900 { out.stat("real_timer_slow_run_was_fast", 1); continue; }
        if !timed { ok = false; msg = format!("a search of {} ms was not reported as timed out", ms); break; }
        if ms > 1000 + 1500 { ok = false; msg = format!("solve_all returned only after {} ms", ms); break; }
        let body = &v[..v.len() - 1];
        if body.iter().any(|x| x == TIMEOUT_MSG) { ok = false; msg = "timeout message among the answers".into(); break; }
        // the answers before the message are the first answers of the untimed sequence: A = 0, then B..G vary with G fastest
        if s % 2 == 0 { for a in body { if !a.starts_with("$A = 0, $B = ") { ok = false; msg = format!("wrong answer before the timeout: {}", a); break; } } }
        else if !body.is_empty() { ok = false; msg = "answers reported for a query that has none".into(); break; }
    }
    // a cancelled timer must never fire: queries of 0-300 microseconds (the time a timer thread needs
    // to start waiting) are where a cancellation can be lost
    if ok {
        start_query();
        for i in 0..3000u64 {
            let t = start_query_timer(1000);
            let t0 = std::time::Instant::now();
            while (t0.elapsed().as_nanos() as u64) < (i % 300) * 1000 { std::hint::spin_loop(); }
            cancel_timer(t);
        }
        start_query();
        std::thread::sleep(std::time::Duration::from_millis(1300));
        if query_stopped() { ok = false; msg = "a cancelled query timer fired after its query was over and set the stop flag (a later query would be cut short)".into(); }
        start_query();
        out.stat("cancel_stress_timers", 3000);
    }
    // every way of leaving solve()/solve_all() must leave no live timer behind: after answers, after
    // `No more.`, after an abandoned query. A timer that is still running fires within a second and
    // stops whatever query is then being asked through next_solution(). (A later timer start or
    // cancel invalidates an older timer, so every path is probed on its own.)
    if ok {
        let mut kb = KnowledgeBase::new();
        add_rules(&mut kb, vec![Rule{head: scomplex!(atom!("pp"), SInteger(1)), body: Goal::Nil}, Rule{head: scomplex!(atom!("pp"), SInteger(2)), body: Goal::Nil}]);
        for path in 0..5 {
            let mk = |f: &str| { let q = Rc::new(make_query(vec![atom!(f), logic_var!("$X")])); let sn = make_base_node(Rc::clone(&q), &kb); (q, sn) };
            let what = match path {
                0 => { let (_q, sn) = mk("pp"); for _ in 0..4 { let a = solve(Rc::clone(&sn)); if a == "No more." { break; } } "solve() asked until `No more.`" },
                1 => { let (_q, sn) = mk("pp"); let _ = solve(Rc::clone(&sn)); "solve() asked once, query abandoned" },
                2 => { let (_q, sn) = mk("qq"); let _ = solve(Rc::clone(&sn)); "solve() on a query without answers" },
                3 => { let (_q, sn) = mk("pp"); let _ = solve_all(sn); "solve_all()" },
                _ => { let (_q, sn) = mk("qq"); let _ = solve_all(sn); "solve_all() on a query without answers" },
            };
            out.cap.take();
            // the next query is built now and asked through next_solution() 1.2 s later
            let (q, sn) = mk("pp");
            std::thread::sleep(std::time::Duration::from_millis(1200));
            let stopped = query_stopped();
            let mut answers = vec![];
            while let Some(ss) = next_solution(Rc::clone(&sn)) { answers.push(term_str(&q.replace_variables(&ss))); if answers.len() > 5 { break; } }
            out.cap.take();
            start_query();
            out.stat("leftover_timer_probes", 1);
            if stopped || answers.len() != 2 {
                ok = false;
                msg = format!("a timer started by {} was still running after the call returned: 1.2 s later the stop flag was {} and a query with 2 answers, asked through next_solution(), gave {}", what, stopped, answers.len());
                break;
            }
        }
    }
    // a query that was prepared (built, base node made) before another query timed out must be answered
    // in full by solve_all() / solve() afterwards: every solve()/solve_all() call starts with a clear flag
    if ok {
        let mut kb = KnowledgeBase::new();
        add_rules(&mut kb, vec![Rule{head: scomplex!(atom!("pp"), SInteger(1)), body: Goal::Nil}, Rule{head: scomplex!(atom!("pp"), SInteger(2)), body: Goal::Nil},
                                Rule{head: scomplex!(atom!("qq"), logic_var!("$X")), body: Goal::ComplexGoal(scomplex!(atom!("pp"), logic_var!("$X")))}]);
        for api in ['A', 'S'] {
            start_query();
            let qb = Rc::new(make_query(vec![atom!("pp"), logic_var!("$X")])); let snb = make_base_node(Rc::clone(&qb), &kb);
            // the other query times out at its first count_rules() (the hook plays the timer thread)
            let qa = Rc::new(Goal::ComplexGoal(scomplex!(atom!("qq"), Unifiable::LogicVar{id: 7, name: "$Y".into()})));
            let sna = make_base_node(Rc::clone(&qa), &kb);
            verif_arm(1);
            let ra = solve_all(sna);
            verif_arm(0);
            out.cap.take();
            let timed_out = ra.last().map(|x| x == TIMEOUT_MSG).unwrap_or(false);
            let got: Vec<String> = if api == 'A' { solve_all(snb) } else { let mut v = vec![]; for _ in 0..4 { let a = solve(Rc::clone(&snb)); let stop = a == "No more." || a == TIMEOUT_MSG; v.push(a); if stop { break; } } v };
            out.cap.take();
            start_query();
            out.stat("prepared_query_probes", 1);
            let want: Vec<String> = if api == 'A' { vec!["$X = 1".into(), "$X = 2".into()] } else { vec!["$X = 1".into(), "$X = 2".into(), "No more.".into()] };
            if !timed_out { ok = false; msg = "the verification hook did not make the first query time out (probe broken)".into(); break; }
            if got != want {
                ok = false;
                msg = format!("a query prepared before another query timed out was then answered {:?} by {} (expected {:?}): the stop flag of the earlier query leaked into it", got, if api == 'A' { "solve_all()" } else { "solve()" }, want);
                break;
            }
        }
    }
    // a timer whose handle was dropped without cancel_timer() (the documentation's own example does that) belongs to no
    // query: when it expires during the next query's search it must not stop it (seeded change C23r10: only cancel_timer()
    // retired a timer generation)
    if ok {
        let mut rules = vec![];
        for i in 0..12 { rules.push(Rule{head: scomplex!(atom!("gen"), SInteger(i)), body: Goal::Nil}); }
        let names = ["$A", "$B", "$C", "$D", "$E"];
        let mut gs: Vec<Goal> = vec![];
        for n in names { gs.push(Goal::ComplexGoal(scomplex!(atom!("gen"), logic_var!(n)))); }
        gs.push(Goal::BuiltInGoal(BuiltInPredicate::new("fail".into(), None)));
        rules.push(Rule{head: scomplex!(atom!("busy")), body: Goal::OperatorGoal(Operator::And(gs))});
        let mut kb = KnowledgeBase::new(); add_rules(&mut kb, rules);
        for round in 0..3 {
            start_query();
            { let _dropped = start_query_timer(40); }
            let q = Rc::new(make_query(vec![atom!("busy")])); let sn = make_base_node(Rc::clone(&q), &kb);
            let t0 = std::time::Instant::now();
            let v = solve_all(sn);
            let ms = t0.elapsed().as_millis();
            out.cap.take();
            start_query();
            out.stat("dropped_timer_probes", 1);
            if ms < 50 { out.stat("dropped_timer_probe_search_was_shorter_than_the_stale_timer", 1); }
            let timed = v.last().map(|x| x == TIMEOUT_MSG).unwrap_or(false);
            if timed && ms < 700 {
                ok = false;
                msg = format!("a timer started earlier and dropped without cancel_timer() stopped the next query: a search of {} ms (round {}) was reported as timed out", ms, round);
                break;
            }
        }
    }
    // the knowledge base changes between queries: rules added in place, then another knowledge base in the same variable
    // (so at the same address). Each query must see the clauses that are there NOW (seeded change C22r10: a cache of the
    // last clause count, keyed by address and predicate)
    if ok {
        let ask = |kb: &KnowledgeBase| -> Result<Vec<String>, ()> {
            catch_unwind(AssertUnwindSafe(|| { let q = Rc::new(make_query(vec![atom!("pp"), logic_var!("$X")])); let sn = make_base_node(Rc::clone(&q), kb); solve_all(sn) })).map_err(|_| ())
        };
        let fact = |i: i64| Rule{head: scomplex!(atom!("pp"), SInteger(i)), body: Goal::Nil};
        start_query();
        let mut kb = KnowledgeBase::new();
        add_rules(&mut kb, vec![fact(1), fact(2)]);
        let a1 = ask(&kb);
        add_rules(&mut kb, vec![fact(3)]);
        let a2 = ask(&kb);
        kb = KnowledgeBase::new();
        add_rules(&mut kb, vec![fact(7)]);
        let a3 = ask(&kb);
        out.cap.take();
        start_query();
        out.stat("changed_knowledge_base_probes", 3);
        let want1: Vec<String> = vec!["$X = 1".into(), "$X = 2".into()];
        let want2: Vec<String> = vec!["$X = 1".into(), "$X = 2".into(), "$X = 3".into()];
        let want3: Vec<String> = vec!["$X = 7".into()];
        if a1 != Ok(want1) || a2 != Ok(want2.clone()) || a3 != Ok(want3.clone()) {
            ok = false;
            msg = format!("the answers of a query depended on the query asked before it: after a rule was added the query gave {:?} (expected {:?}), and against a new knowledge base {:?} (expected {:?}); Err = panic", a2, want2, a3, want3);
        }
    }
    out.impl_line(id, "real");
    if cfg.want("C23") { out.oracle(id, "C23", ok, &msg); }
    if cfg.want("C22") { out.oracle(id, "C22", ok, &msg); }
}
