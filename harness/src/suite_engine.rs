//! Suite `engine`: programs + query, run with next_solution() until exhaustion and re-asked.
use std::rc::Rc;
use std::cell::RefCell;
use std::panic::{catch_unwind, AssertUnwindSafe};
use suiron::*;
use crate::prng::Rng;
use crate::gen::*;
use crate::codec::*;
use crate::out::Out;

pub struct Case { pub rules: Vec<Rule>, pub query: Vec<Unifiable>, pub max_calls: usize, pub extra: usize }

pub fn enc_case(c: &Case) -> String {
    let mut s = format!("engine {} {} Q {}", c.max_calls, c.extra, c.query.len());
    for t in &c.query { s.push(' '); enc_term(t, &mut s); }
    s.push_str(&format!(" RULES {}", c.rules.len()));
    for r in &c.rules { s.push(' '); enc_rule(r, &mut s); }
    s
}

pub fn dec_case(body: &str) -> Option<Case> {
    let toks: Vec<&str> = body.split_whitespace().collect();
    if toks.get(0) != Some(&"engine") { return None; }
    let max_calls: usize = toks.get(1)?.parse().ok()?;
    let extra: usize = toks.get(2)?.parse().ok()?;
    if toks.get(3) != Some(&"Q") { return None; }
    let nq: usize = toks.get(4)?.parse().ok()?;
    let mut i = 5; let mut query = vec![];
    for _ in 0..nq { query.push(dec_term(&toks, &mut i)?); }
    if toks.get(i) != Some(&"RULES") { return None; }
    let nr: usize = toks.get(i + 1)?.parse().ok()?; i += 2;
    let mut rules = vec![];
    for _ in 0..nr { rules.push(dec_rule(&toks, &mut i)?); }
    Some(Case{rules, query, max_calls, extra})
}

/// one record per next_solution() call:
///   S <subst> A <resolved query | panic> C <counter> O <hex stdout>
///   N C <counter> O <hex stdout>
///   P O <hex stdout>          (panic; the run stops)
thread_local! { pub static FRESH_VIOLATION: std::cell::RefCell<Option<String>> = std::cell::RefCell::new(None); }

/// largest variable id that occurs in a substitution set (as a bound slot or inside a bound term)
fn max_id_term(t: &Unifiable) -> usize {
    match t {
        Unifiable::LogicVar{id, ..} => *id,
        Unifiable::SComplex(a) => a.iter().map(max_id_term).max().unwrap_or(0),
        Unifiable::SFunction{terms, ..} => terms.iter().map(max_id_term).max().unwrap_or(0),
        Unifiable::SLinkedList{term, next, ..} => max_id_term(term).max(max_id_term(next)),
        _ => 0,
    }
}
pub fn max_id(ss: &SubstitutionSet) -> usize {
    let mut m = 0;
    for (i, e) in ss.iter().enumerate() { if let Some(t) = e { m = m.max(i).max(max_id_term(t)); } }
    m
}

pub fn run_impl(c: &Case, cap: &mut crate::capture::Capture) -> (String, Vec<Option<String>>, Vec<String>) {
    FRESH_VIOLATION.with(|v| *v.borrow_mut() = None);
    let mut recs: Vec<String> = vec![];
    let mut answers: Vec<Option<String>> = vec![];   // resolved answers (None = "no more"), for oracles
    let mut outs: Vec<String> = vec![];
    cap.take();
    let built = catch_unwind(AssertUnwindSafe(|| {
        start_query();
        let mut kb = KnowledgeBase::new();
        add_rules(&mut kb, c.rules.clone());
        let q = make_query(c.query.clone());
        (kb, q)
    }));
    let (kb, q) = match built { Ok(x) => x, Err(_) => { return ("BUILD-PANIC".into(), answers, outs); } };
    let q = Rc::new(q);
    let sn = match catch_unwind(AssertUnwindSafe(|| make_base_node(Rc::clone(&q), &kb))) { Ok(s) => s, Err(_) => return ("BASE-PANIC".into(), answers, outs) };
    let mut nones = 0;
    for _ in 0..c.max_calls {
        let r = catch_unwind(AssertUnwindSafe(|| {
            match next_solution(Rc::clone(&sn)) { Some(ss) => Some((*ss).clone()), None => None }
        }));
        let o = canon_elapsed(&cap.take());
        match r {
            Err(_) => { recs.push("P".to_string()); outs.push(o); break; },
            Ok(None) => {
                recs.push(format!("N C {} O {}", get_var_id(), hex(&o)));
                answers.push(None); outs.push(o);
                nones += 1;
                if nones > c.extra { break; }
            },
            Ok(Some(ss)) if !acyclic(&ss) => {
                // an occurs-check situation: resolving or continuing would not return
                recs.push(format!("CYCLIC C {} O {}", get_var_id(), hex(&o)));
                outs.push(o);
                break;
            },
            Ok(Some(ss)) => {
                // every variable of the search so far was issued by the counter: none may lie above it
                // (a clause fetched next would otherwise be given a variable that is already in use)
                if max_id(&ss) > get_var_id() {
                    FRESH_VIOLATION.with(|v| { let mut v = v.borrow_mut(); if v.is_none() {
                        *v = Some(format!("after answer {} the variable counter is {} but variable {} is in use in the substitution set: the next clause would be given a variable that is not fresh", answers.len() + 1, get_var_id(), max_id(&ss))); } });
                }
                let a = match catch_unwind(AssertUnwindSafe(|| q.replace_variables(&ss))) { Ok(t) => term_str(&t), Err(_) => "panic".to_string() };
                cap.take();
                recs.push(format!("S {} A {} C {} O {}", enc_subst(&ss), a, get_var_id(), hex(&o)));
                answers.push(Some(a)); outs.push(o);
            },
        }
    }
    (recs.join(" ; "), answers, outs)
}

/// `time(G)` writes `N seconds M microseconds ` (`1 second ...`): replaced by the placeholder the model writes
pub fn canon_elapsed(o: &str) -> String {
    let cs: Vec<char> = o.chars().collect();
    let mut out = String::new(); let mut i = 0;
    let lit = |cs: &Vec<char>, at: usize, w: &str| -> bool { let wc: Vec<char> = w.chars().collect(); at + wc.len() <= cs.len() && cs[at..at + wc.len()] == wc[..] };
    while i < cs.len() {
        // every timed goal of the generated programs takes less than a second: the count of seconds is the
        // single character `0` (text printed just before it may end in digits of its own)
        if cs[i] == '0' && lit(&cs, i + 1, " seconds ") {
            let k = i + 10;
            let mut m = k; while m < cs.len() && cs[m].is_ascii_digit() { m += 1; }
            if m > k && lit(&cs, m, " microseconds ") { out.push_str("<elapsed>"); i = m + 14; continue; }
        }
        out.push(cs[i]); i += 1;
    }
    out
}

pub struct Cfg { pub props: Vec<String> }
impl Cfg { pub fn want(&self, p: &str) -> bool { self.props.iter().any(|x| x == p) } }

pub struct RunInfo { pub id: usize, pub rec: String, pub answers: Vec<Option<String>>, pub outs: Vec<String>, pub substs: Vec<String> }

pub fn emit(out: &mut Out, cfg: &Cfg, c: &Case) { let _ = emit_info(out, cfg, c); }

/// records of one IMPL line: the substitution sets (encoded) of the answers, in order
pub fn substs_of(rec: &str) -> Vec<String> {
    let mut v = vec![];
    for r in rec.split(" ; ") {
        if r.starts_with("S ") { if let Some(a) = r.find(" A ") { v.push(r[2..a].to_string()); } }
    }
    v
}

pub fn emit_info(out: &mut Out, cfg: &Cfg, c: &Case) -> Option<RunInfo> {
    if !out.begin() { return None; }
    let id = out.case(&enc_case(c));
    let (rec, answers, outs) = run_impl(c, &mut out.cap);
    out.impl_line(id, &rec);
    let n_ans = answers.iter().filter(|a| a.is_some()).count();
    out.stat(&format!("answers_{}", if n_ans > 5 { "6plus".to_string() } else { n_ans.to_string() }), 1);
    if rec.ends_with("P") || rec.contains("PANIC") { out.stat("panic_runs", 1); }
    if n_ans == 0 && c.rules.len() < 2 { out.trivial(id); }
    // ---- C05: once "no more", always "no more", and silent
    if cfg.want("C05") {
        let mut seen_none = false; let mut ok = true; let mut msg = String::new();
        for (i, a) in answers.iter().enumerate() {
            if seen_none {
                if a.is_some() { ok = false; msg = format!("request {} returned an answer after the query had reported no more answers", i + 1); break; }
                if !outs[i].is_empty() { ok = false; msg = format!("request {} after exhaustion wrote output", i + 1); break; }
            }
            if a.is_none() { seen_none = true; }
        }
        if seen_none { out.oracle(id, "C05", ok, &msg); }
    }
    if cfg.want("C10") || cfg.want("C01") {
        let v = FRESH_VIOLATION.with(|v| v.borrow().clone());
        let p = if cfg.want("C10") { "C10" } else { "C01" };
        match v { Some(m) => out.oracle(id, p, false, &m), None => if cfg.want("C10") { out.oracle(id, "C10", true, "") } }
    }
    let substs = substs_of(&rec);
    Some(RunInfo{id, rec, answers, outs, substs})
}

// ------------------------------------------------------------------ program generator

#[derive(Clone)]
pub struct Weights { pub cut: usize, pub not: usize, pub print: usize, pub lists: usize, pub arith: usize, pub or: usize, pub anon: bool, pub time: usize, pub cut_in_not: bool }
impl Weights {
    pub fn pure_() -> Weights { Weights{cut: 0, not: 0, print: 0, lists: 2, arith: 2, or: 3, anon: true, time: 0, cut_in_not: false} }
    pub fn all() -> Weights { Weights{cut: 3, not: 2, print: 2, lists: 2, arith: 2, or: 3, anon: true, time: 0, cut_in_not: false} }
}

fn pname(i: usize) -> String { format!("p{}", i) }
fn lv(name: &str) -> Unifiable { logic_var!(name) }
const VARS: [&str; 4] = ["$X", "$Y", "$Z", "$W"];

fn gen_arg(r: &mut Rng, w: &Weights, allow_var: bool) -> Unifiable {
    let k = r.below(100);
    if allow_var && k < 45 { return lv(*r.pick(&VARS)); }
    if k < 55 { return SInteger(r.below(4) as i64); }
    if k < 80 { return atom!(*r.pick(&["a", "b", "c"])); }
    if w.anon && k < 84 { return Unifiable::Anonymous; }
    if w.lists > 0 && k < 94 {
        let n = r.below(3);
        let mut e = vec![]; for _ in 0..n { e.push(gen_arg(r, w, allow_var)); }
        let tail = if allow_var && n > 0 && r.chance(1, 3) { Some(lv(*r.pick(&VARS))) } else { None };
        return proper_list(e, tail);
    }
    if allow_var && r.chance(1, 2) { return scomplex!(atom!("f"), lv(*r.pick(&VARS))); }
    scomplex!(atom!("f"), gen_arg(r, w, allow_var))
}

pub fn names_of(t: &Unifiable, out: &mut Vec<String>) {
    match t {
        Unifiable::LogicVar{name, ..} => { if !out.contains(name) { out.push(name.clone()); } },
        Unifiable::SComplex(a) => for x in a { names_of(x, out) },
        Unifiable::SFunction{terms, ..} => for x in terms { names_of(x, out) },
        Unifiable::SLinkedList{term, next, ..} => { names_of(term, out); names_of(next, out); },
        _ => {},
    }
}

/// is the substitution set free of cycles (through variables and through structure)?
pub fn acyclic(ss: &SubstitutionSet) -> bool {
    // 0 = unvisited, 1 = on stack, 2 = done
    fn term_ok(t: &Unifiable, ss: &SubstitutionSet, st: &mut Vec<u8>) -> bool {
        match t {
            Unifiable::LogicVar{id, ..} => var_ok(*id, ss, st),
            Unifiable::SComplex(a) => a.iter().all(|x| term_ok(x, ss, st)),
            Unifiable::SFunction{terms, ..} => terms.iter().all(|x| term_ok(x, ss, st)),
            Unifiable::SLinkedList{term, next, ..} => term_ok(term, ss, st) && term_ok(next, ss, st),
            _ => true,
        }
    }
    fn var_ok(id: usize, ss: &SubstitutionSet, st: &mut Vec<u8>) -> bool {
        if id >= ss.len() { return true; }
        match st[id] { 1 => return false, 2 => return true, _ => {} }
        st[id] = 1;
        let ok = match &ss[id] { Some(t) => term_ok(t, ss, st), None => true };
        st[id] = 2;
        ok
    }
    let mut st = vec![0u8; ss.len()];
    (0..ss.len()).all(|i| var_ok(i, ss, &mut st))
}

fn bip(name: &str, args: Vec<Unifiable>) -> Goal { Goal::BuiltInGoal(BuiltInPredicate::new(name.to_string(), Some(args))) }
fn bip0(name: &str) -> Goal { Goal::BuiltInGoal(BuiltInPredicate::new(name.to_string(), None)) }

/// a goal that may call predicates with index > level (stratified: no recursion)
fn gen_goal(r: &mut Rng, w: &Weights, arities: &[usize], level: usize, depth: usize) -> Goal {
    let npred = arities.len();
    let mut choices: Vec<(usize, u8)> = vec![(30, 0), (12, 1), (6, 2)];
    if level + 1 < npred { choices.push((40, 3)); }
    if depth < 2 { choices.push((10, 4)); choices.push((w.or * 3, 5)); }
    choices.push((w.cut * 4, 6)); choices.push((w.not * 4, 7)); choices.push((w.print * 4, 8));
    choices.push((w.arith * 3, 9)); choices.push((w.lists * 3, 10)); choices.push((3, 11)); choices.push((w.time * 4, 12));
    let total: usize = choices.iter().map(|c| c.0).sum();
    let mut k = r.below(total);
    let mut pick = 0u8;
    for (wt, c) in &choices { if k < *wt { pick = *c; break; } k -= wt; }
    match pick {
        0 => {
            // never write `$X = term containing $X` (an occurs-check situation by construction)
            let v = *r.pick(&VARS);
            let mut t = gen_arg(r, w, true);
            let mut vs = vec![]; names_of(&t, &mut vs);
            if vs.iter().any(|n| n == v) && !matches!(t, Unifiable::LogicVar{..}) { t = atom!("a"); }
            bip("unify", vec![lv(v), t])
        },
        1 => bip(*r.pick(&["equal", "less_than", "less_than_or_equal", "greater_than", "greater_than_or_equal"]),
                 vec![gen_arg(r, w, true), if r.chance(1, 2) { SInteger(r.below(4) as i64) } else { gen_arg(r, w, true) }]),
        2 => {
            let a = gen_arg(r, w, true); let mut b = gen_arg(r, w, true);
            let mut va = vec![]; names_of(&a, &mut va); let mut vb = vec![]; names_of(&b, &mut vb);
            if va.iter().any(|n| vb.contains(n)) { b = SInteger(1); }
            bip("unify", vec![a, b])
        },
        3 => {
            let j = level + 1 + r.below(npred - level - 1);
            let mut args = vec![atom!(pname(j))];
            for _ in 0..arities[j] { args.push(gen_arg(r, w, true)); }
            Goal::ComplexGoal(Unifiable::SComplex(args))
        },
        4 | 5 => {
            let n = 2 + r.below(2);
            let mut gs = vec![]; for _ in 0..n { gs.push(gen_goal(r, w, arities, level, depth + 1)); }
            // cut followed by failure inside a group: the situation in which a cut must stop
            // later alternatives / clauses although nothing succeeded after it
            if w.cut > 0 && r.chance(w.cut, w.cut + 6) {
                let mut grp = vec![];
                if r.chance(1, 2) { grp.push(gen_goal(r, w, arities, level, depth + 2)); }
                grp.push(bip0("!"));
                if r.chance(1, 2) { grp.push(gen_goal(r, w, arities, level, depth + 2)); }
                if r.chance(2, 3) { grp.push(bip0("fail")); }
                let k = r.below(gs.len());
                gs[k] = if grp.len() == 1 { grp.pop().unwrap() } else { Goal::OperatorGoal(Operator::And(grp)) };
            }
            if pick == 4 { Goal::OperatorGoal(Operator::And(gs)) } else { Goal::OperatorGoal(Operator::Or(gs)) }
        },
        6 => bip0("!"),
        7 => {
            // no cut inside not(...) unless the run asks for it (the reference machine is then not consulted)
            let mut w2 = w.clone(); if !w.cut_in_not { w2.cut = 0; } else { w2.cut = w2.cut.max(6); } w2.print = 0;
            Goal::OperatorGoal(Operator::Not(vec![gen_goal(r, &w2, arities, level, depth + 1)]))
        },
        8 => match r.below(3) {
            0 => bip0("nl"),
            1 => {
                // 0-3 arguments after the format; argument values may themselves contain the marker
                let mut args = vec![atom!(*r.pick(&["v=%s ", "%s-%s|", "hi ", "%s", "%s%s", "<%s,%s,%s>"]))];
                let n = if r.chance(1, 2) { 1 } else { r.below(4) };
                for _ in 0..n {
                    args.push(if r.chance(1, 5) { atom!(*r.pick(&["%s", "5%s", "a%sb%s"])) } else { gen_arg(r, w, true) });
                }
                // the format text may reach print through a bound variable
                if r.chance(1, 4) {
                    let v = lv(*r.pick(&VARS));
                    let fmt = std::mem::replace(&mut args[0], v.clone());
                    Goal::OperatorGoal(Operator::And(vec![bip("unify", vec![v, fmt]), bip("print", args)]))
                } else { bip("print", args) }
            },
            _ => bip("print_list", vec![gen_arg(r, w, true)]),
        },
        9 => {
            let f = *r.pick(&["add", "subtract", "multiply"]);
            let a1 = if r.chance(1, 2) { lv(*r.pick(&VARS)) } else { SInteger(1 + r.below(3) as i64) };
            bip("unify", vec![lv(*r.pick(&VARS)), Unifiable::SFunction{name: f.to_string(), terms: vec![a1, SInteger(1 + r.below(3) as i64)]}])
        },
        10 => match r.below(4) {
            0 => bip("append", vec![gen_arg(r, w, true), gen_arg(r, w, true), lv(*r.pick(&VARS))]),
            1 => bip("count", vec![gen_arg(r, w, true), lv(*r.pick(&VARS))]),
            2 => bip("include", vec![gen_arg(r, w, true), gen_arg(r, w, true), lv(*r.pick(&VARS))]),
            _ => bip("functor", vec![gen_arg(r, w, true), lv(*r.pick(&VARS))]),
        },
        12 => {
            let mut w2 = w.clone(); w2.cut = 0; w2.time = 0;
            Goal::OperatorGoal(Operator::Time(vec![gen_goal(r, &w2, arities, level, depth + 1)]))
        },
        _ => bip0("fail"),
    }
}

pub fn gen_program(r: &mut Rng, w: &Weights) -> Case {
    let npred = 2 + r.below(4);
    let arities: Vec<usize> = (0..npred).map(|_| r.below(3)).collect();
    let mut rules = vec![];
    for i in 0..npred {
        let nclauses = 1 + r.below(3);
        for _ in 0..nclauses {
            let mut head = vec![atom!(pname(i))];
            for _ in 0..arities[i] { head.push(gen_arg(r, w, true)); }
            let is_fact = i + 1 == npred || r.chance(2, 5);
            let body = if is_fact { Goal::Nil } else {
                let n = 1 + r.below(3);
                if n == 1 { gen_goal(r, w, &arities, i, 0) }
                else { let mut gs = vec![]; for _ in 0..n { gs.push(gen_goal(r, w, &arities, i, 1)); } Goal::OperatorGoal(Operator::And(gs)) }
            };
            rules.push(Rule{head: Unifiable::SComplex(head), body});
        }
    }
    let qi = r.below(2.min(npred));
    let mut query = vec![atom!(pname(qi))];
    for _ in 0..arities[qi] { query.push(if r.chance(2, 3) { lv(*r.pick(&VARS)) } else { gen_arg(r, w, true) }); }
    Case{rules, query, max_calls: 40, extra: 1 + r.below(3)}
}

/// a parameter handed down unchanged through `depth` levels of recursion and printed at each: the callee's variable is bound to
/// the caller's, so the printed value is reached through a chain of up to `depth` variable-to-variable links (seeded change
/// C04r11: `get_ground_term` gave up after 128 links and `print` fell back to the variable's name)
pub fn deep_print_case(depth: usize) -> Case {
    let items: Vec<Unifiable> = (0..depth).map(|i| SInteger(i as i64)).collect();
    let rules = vec![
        Rule{head: scomplex!(atom!("walk"), proper_list(vec![], None), lv("$T")), body: Goal::Nil},
        Rule{head: scomplex!(atom!("walk"), proper_list(vec![lv("$H")], Some(lv("$R"))), lv("$T")),
             body: Goal::OperatorGoal(Operator::And(vec![bip("print", vec![atom!("%s-%s "), lv("$T"), lv("$H")]),
                                                         Goal::ComplexGoal(scomplex!(atom!("walk"), lv("$R"), lv("$T")))]))},
    ];
    Case{rules, query: vec![atom!("walk"), proper_list(items, None), atom!("item")], max_calls: 40, extra: 1}
}

pub fn run_random(out: &mut Out, cfg: &Cfg, w: &Weights, seed: u64, n: usize) {
    let mut r = Rng::new(seed);
    if w.print > 0 { for depth in [3usize, 127, 128, 129, 140] { emit(out, cfg, &deep_print_case(depth)); } }
    for _ in 0..n { let c = gen_program(&mut r, w); emit(out, cfg, &c); }
}

/// bounded-exhaustive small programs: `t($X) :- BODY.  t(other).  g(1). g(2). h(2). h(3).`
/// BODY ranges over all flat conjunctions of 1-3 goals, all `(a ; b), c`, `a, (b ; c)`, `(a, b) ; c`,
/// `a ; (b, c)` shapes over a 10-goal alphabet that includes `!`, `fail`, not(...) and print.
pub fn alphabet() -> Vec<Goal> {
    let x = || lv("$X"); let y = || lv("$Y");
    vec![
        Goal::ComplexGoal(scomplex!(atom!("g"), x())),
        Goal::ComplexGoal(scomplex!(atom!("h"), x())),
        bip0("!"),
        bip0("fail"),
        bip("unify", vec![x(), SInteger(2)]),
        bip("print", vec![atom!("%s."), x()]),
        Goal::OperatorGoal(Operator::Not(vec![Goal::ComplexGoal(scomplex!(atom!("h"), x()))])),
        Goal::ComplexGoal(scomplex!(atom!("g"), y())),
        bip("less_than", vec![x(), SInteger(2)]),
        Goal::ComplexGoal(scomplex!(atom!("c"), x())),
        Goal::ComplexGoal(scomplex!(atom!("r"), x())),
    ]
}

pub fn run_exhaustive(out: &mut Out, cfg: &Cfg, shard: usize, nshards: usize) {
    let al = alphabet();
    let and = |v: Vec<Goal>| Goal::OperatorGoal(Operator::And(v));
    let or = |v: Vec<Goal>| Goal::OperatorGoal(Operator::Or(v));
    let mut bodies: Vec<Goal> = vec![];
    for a in &al { bodies.push(a.clone()); }
    for a in &al { for b in &al { bodies.push(and(vec![a.clone(), b.clone()])); bodies.push(or(vec![a.clone(), b.clone()])); } }
    for a in &al { for b in &al { for c in &al {
        bodies.push(and(vec![a.clone(), b.clone(), c.clone()]));
        bodies.push(and(vec![or(vec![a.clone(), b.clone()]), c.clone()]));
        bodies.push(and(vec![a.clone(), or(vec![b.clone(), c.clone()])]));
        bodies.push(or(vec![and(vec![a.clone(), b.clone()]), c.clone()]));
        bodies.push(or(vec![a.clone(), and(vec![b.clone(), c.clone()])]));
        bodies.push(and(vec![and(vec![a.clone(), b.clone()]), c.clone()]));
    } } }
    let fact = |f: &str, v: Unifiable| Rule{head: scomplex!(atom!(f), v), body: Goal::Nil};
    // c/1 has a cut of its own: `c($X) :- g($X), !.`  (cut in a callee must not affect the caller)
    let crule = Rule{head: scomplex!(atom!("c"), lv("$X")), body: and(vec![Goal::ComplexGoal(scomplex!(atom!("g"), lv("$X"))), bip0("!")])};
    // r/1 is defined by a rule whose body has several answers: `r($X) :- g($X).`
    let rrule = Rule{head: scomplex!(atom!("r"), lv("$X")), body: Goal::ComplexGoal(scomplex!(atom!("g"), lv("$X")))};
    let mut idx = 0usize;
    for b in bodies {
        idx += 1;
        if idx % nshards != shard { continue; }
        // the clause under test first (a later clause exists) and last (nothing after it)
        for body_first in [true, false] {
            let main = Rule{head: scomplex!(atom!("t"), lv("$X")), body: b.clone()};
            let other = fact("t", atom!("other"));
            let mut rules = if body_first { vec![main, other] } else { vec![other, main] };
            rules.extend(vec![fact("g", SInteger(1)), fact("g", SInteger(2)), fact("h", SInteger(2)), fact("h", SInteger(3)),
                              crule.clone(), fact("c", SInteger(3)), rrule.clone()]);
            let c = Case{rules, query: vec![atom!("t"), lv("$X")], max_calls: 40, extra: 2};
            emit(out, cfg, &c);
        }
    }
}

// ------------------------------------------------------------------ C11: alpha-renamings of the rules

fn map_names_term(t: &Unifiable, f: &dyn Fn(&str) -> String) -> Unifiable {
    match t {
        Unifiable::LogicVar{id, name} => Unifiable::LogicVar{id: *id, name: f(name)},
        Unifiable::SComplex(a) => Unifiable::SComplex(a.iter().map(|x| map_names_term(x, f)).collect()),
        Unifiable::SFunction{name, terms} => Unifiable::SFunction{name: name.clone(), terms: terms.iter().map(|x| map_names_term(x, f)).collect()},
        Unifiable::SLinkedList{term, next, count, tail_var} => Unifiable::SLinkedList{term: Box::new(map_names_term(term, f)), next: Box::new(map_names_term(next, f)), count: *count, tail_var: *tail_var},
        _ => t.clone(),
    }
}
fn map_names_goal(g: &Goal, f: &dyn Fn(&str) -> String) -> Goal {
    match g {
        Goal::ComplexGoal(t) => Goal::ComplexGoal(map_names_term(t, f)),
        Goal::BuiltInGoal(b) => Goal::BuiltInGoal(BuiltInPredicate::new(b.functor.clone(), b.terms.as_ref().map(|ts| ts.iter().map(|x| map_names_term(x, f)).collect()))),
        Goal::OperatorGoal(op) => Goal::OperatorGoal(match op {
            Operator::And(gs) => Operator::And(gs.iter().map(|x| map_names_goal(x, f)).collect()),
            Operator::Or(gs) => Operator::Or(gs.iter().map(|x| map_names_goal(x, f)).collect()),
            Operator::Time(gs) => Operator::Time(gs.iter().map(|x| map_names_goal(x, f)).collect()),
            Operator::Not(gs) => Operator::Not(gs.iter().map(|x| map_names_goal(x, f)).collect()),
        }),
        Goal::Nil => Goal::Nil,
    }
}

/// answers with variables numbered by first occurrence (names and ids dropped), outputs with
/// printed variable names replaced by a placeholder
fn canon_answers(info: &RunInfo) -> Vec<String> {
    let mut v = vec![];
    for (a, o) in info.answers.iter().zip(info.outs.iter()) {
        let a2 = match a {
            Some(s) => {
                let mut m: Vec<String> = vec![]; let mut toks = vec![];
                for t in s.split(' ') {
                    if t.starts_with("V:") { let id = t.split(':').nth(1).unwrap_or("").to_string(); let k = match m.iter().position(|x| *x == id) { Some(k) => k, None => { m.push(id); m.len() - 1 } }; toks.push(format!("V#{}", k)); }
                    else { toks.push(t.to_string()); }
                }
                toks.join(" ")
            },
            None => "none".to_string(),
        };
        // printed unbound variables look like $Name_12
        let mut o2 = String::new(); let cs: Vec<char> = o.chars().collect(); let mut i = 0;
        while i < cs.len() {
            if cs[i] == '$' && i + 1 < cs.len() && cs[i + 1].is_alphabetic() {
                let mut j = i + 1; while j < cs.len() && (cs[j].is_alphanumeric() || cs[j] == '_') { j += 1; }
                o2.push_str("$?"); i = j;
            } else { o2.push(cs[i]); i += 1; }
        }
        v.push(format!("{} | {}", a2, o2));
    }
    v
}

pub fn emit_c11(out: &mut Out, cfg: &Cfg, c: &Case, r: &mut Rng) {
    let base = match emit_info(out, cfg, c) { Some(i) => i, None => { for _ in 0..4 { let _ = out.begin(); } return; } };
    let want = canon_answers(&base);
    let perm: Vec<usize> = { let mut p: Vec<usize> = (0..VARS.len()).collect(); for i in (1..p.len()).rev() { let j = r.below(i + 1); p.swap(i, j); } p };
    // canonical names: the variables of every rule numbered by first occurrence ($V1, $V2, ...) — clauses that are
    // alpha-variants of each other become literally identical
    let canon_maps: Vec<Vec<(String, String)>> = c.rules.iter().map(|rule| {
        let seen: RefCell<Vec<String>> = RefCell::new(vec![]);
        let note = |n: &str| -> String { if !seen.borrow().iter().any(|x| x == n) { seen.borrow_mut().push(n.to_string()); } n.to_string() };
        let _ = map_names_term(&rule.head, &note); let _ = map_names_goal(&rule.body, &note);
        let v = seen.borrow().clone();
        v.iter().enumerate().map(|(k, n)| (n.clone(), format!("$V{}", k + 1))).collect()
    }).collect();
    let variants: Vec<Box<dyn Fn(usize, &str) -> String>> = vec![
        Box::new(move |ri, n| { canon_maps.get(ri).and_then(|m| m.iter().find(|(a, _)| a == n)).map(|(_, b)| b.clone()).unwrap_or(n.to_string()) }),
        // every rule gets its own fresh names
        Box::new(|ri, n| format!("$R{}{}", ri, &n[1..])),
        // all rules: the same permutation of the shared pool (which is also the query's pool)
        Box::new(move |_ri, n| { match VARS.iter().position(|v| *v == n) { Some(k) => VARS[perm[k]].to_string(), None => n.to_string() } }),
        // long / non-ASCII names
        Box::new(|_ri, n| format!("$Überlang_{}_Ω", &n[1..])),
        // names that differ only by a numeric suffix: $P, $P_1, $P_2, $P_3
        Box::new(|_ri, n| { match VARS.iter().position(|v| *v == n) { Some(0) => "$P".to_string(), Some(k) => format!("$P_{}", k), None => n.to_string() } }),
    ];
    let mut ok = true; let mut msg = String::new();
    for (vi, f) in variants.iter().enumerate() {
        let rules: Vec<Rule> = c.rules.iter().enumerate().map(|(ri, rule)| {
            let g = |n: &str| f(ri, n);
            Rule{head: map_names_term(&rule.head, &g), body: map_names_goal(&rule.body, &g)}
        }).collect();
        let c2 = Case{rules, query: c.query.clone(), max_calls: c.max_calls, extra: c.extra};
        if let Some(info) = emit_info(out, cfg, &c2) {
            let got = canon_answers(&info);
            if got != want && ok {
                ok = false;
                let k = (0..want.len().max(got.len())).find(|i| want.get(*i) != got.get(*i)).unwrap_or(0);
                msg = format!("renaming variant {} changes result {}: `{}` became `{}`", vi + 1, k + 1, want.get(k).cloned().unwrap_or("<nothing>".into()), got.get(k).cloned().unwrap_or("<nothing>".into()));
            }
        }
    }
    // the same programs as source text: print every rule, read it back with the rule parser and run that.
    // (The printed form of the generated rules is canonical except for blanks at the ends of atoms, so the
    // parsed runs are compared with each other, not with the runs of the rules built through the API.)
    let parse_all = |rules: &Vec<Rule>| -> Result<Vec<Rule>, String> {
        let mut v = vec![];
        for rule in rules {
            let text = match catch_unwind(AssertUnwindSafe(|| rule.to_string())) { Ok(t) => t, Err(_) => return Err("printing a rule panicked".into()) };
            match catch_unwind(AssertUnwindSafe(|| parse_rule(&text))) {
                Ok(Ok(r2)) => v.push(r2),
                Ok(Err(e)) => return Err(format!("`{}` is rejected: {}", text, e)),
                Err(_) => return Err(format!("parse_rule panicked on `{}`", text)),
            }
        }
        Ok(v)
    };
    if let Ok(base_rules) = parse_all(&c.rules) {
        let cb = Case{rules: base_rules, query: c.query.clone(), max_calls: c.max_calls, extra: c.extra};
        if let Some(binfo) = emit_info(out, cfg, &cb) {
            let want_text = canon_answers(&binfo);
            for (vi, f) in variants.iter().enumerate() {
                let rules: Vec<Rule> = c.rules.iter().enumerate().map(|(ri, rule)| {
                    let g = |n: &str| f(ri, n);
                    Rule{head: map_names_term(&rule.head, &g), body: map_names_goal(&rule.body, &g)}
                }).collect();
                match parse_all(&rules) {
                    Err(e) => { if ok { ok = false; msg = format!("renaming variant {} of the program text: {}", vi + 1, e); } },
                    Ok(rules2) => {
                        let c2 = Case{rules: rules2, query: c.query.clone(), max_calls: c.max_calls, extra: c.extra};
                        if let Some(info) = emit_info(out, cfg, &c2) {
                            let got = canon_answers(&info);
                            if got != want_text && ok {
                                ok = false;
                                let k = (0..want_text.len().max(got.len())).find(|i| want_text.get(*i) != got.get(*i)).unwrap_or(0);
                                msg = format!("renaming variant {} of the program TEXT changes result {}: `{}` became `{}`", vi + 1, k + 1, want_text.get(k).cloned().unwrap_or("<nothing>".into()), got.get(k).cloned().unwrap_or("<nothing>".into()));
                            }
                        }
                    },
                }
            }
        }
    }
    if cfg.want("C11") && !base.rec.contains("CYCLIC") { out.oracle(base.id, "C11", ok, &msg); }
}

pub fn run_c11(out: &mut Out, cfg: &Cfg, w: &Weights, seed: u64, n: usize) {
    let mut r = Rng::new(seed);
    for i in 0..n {
        let mut c = gen_program(&mut r, w);
        // every third program: some clauses occur twice, the copy with its variables renamed (an alpha-variant of
        // the original, right after it) — both must be kept and both must answer, whatever the names
        if i % 3 == 2 {
            let mut rules = vec![];
            for rule in &c.rules {
                rules.push(rule.clone());
                if r.chance(1, 3) {
                    let f = |n: &str| -> String { match VARS.iter().position(|v| *v == n) { Some(k) => VARS[(k + 1) % VARS.len()].to_string(), None => format!("{}q", n) } };
                    rules.push(Rule{head: map_names_term(&rule.head, &f), body: map_names_goal(&rule.body, &f)});
                    out.stat("c11_alpha_variant_clauses", 1);
                }
            }
            c.rules = rules;
        }
        emit_c11(out, cfg, &c, &mut r);
    }
}
