//! Suite `unify`: sequences of unifications; correspondence cases + oracles for C06-C09, C13.
use std::rc::Rc;
use std::panic::{catch_unwind, AssertUnwindSafe};
use suiron::*;
use crate::prng::Rng;
use crate::gen::*;
use crate::codec::*;
use crate::refuni::{self, FO, RefRes, Viewer};
use crate::out::Out;

pub type Pair = (Unifiable, Unifiable);

#[derive(Debug, Clone, PartialEq)]
pub enum Status { Ok, Fail, Panic, Cyclic }

/// run the implementation on a sequence; returns per-step status and the last good σ
pub fn run_impl(pairs: &[Pair]) -> (Vec<Status>, Vec<SubstitutionSet<'static>>) {
    let mut sts = vec![];
    let mut sets: Vec<SubstitutionSet> = vec![SubstitutionSet::new()];
    for (a, b) in pairs {
        let cur = Rc::new(sets.last().unwrap().clone());
        let r = catch_unwind(AssertUnwindSafe(|| {
            match a.unify(b, &cur) { Some(s) => Some((*s).clone()), None => None }
        }));
        match r {
            Ok(Some(s)) => {
                sts.push(Status::Ok);
                // never call the implementation again on a cyclic set (it would not return)
                let cyc = chains_end(&s).is_some();
                sets.push(s);
                if cyc { sts.push(Status::Cyclic); break; }
            },
            Ok(None) => { sts.push(Status::Fail); break; },
            Err(_) => { sts.push(Status::Panic); break; },
        }
    }
    (sts, sets)
}

pub fn unify_once(a: &Unifiable, b: &Unifiable, ss: &SubstitutionSet<'static>) -> Result<Option<SubstitutionSet<'static>>, ()> {
    let cur = Rc::new(ss.clone());
    let r = catch_unwind(AssertUnwindSafe(|| {
        match a.unify(b, &cur) { Some(s) => Some((*s).clone()), None => None }
    }));
    match r {
        // a cyclic result is reported like a panic: nothing may be resolved against it
        Ok(Some(s)) => if chains_end(&s).is_some() { Err(()) } else { Ok(Some(s)) },
        Ok(None) => Ok(None),
        Err(_) => Err(()),
    }
}

fn status_str(sts: &[Status]) -> String {
    sts.iter().map(|s| match s { Status::Ok => "ok", Status::Fail => "fail", Status::Panic => "panic", Status::Cyclic => "cyclic" }).collect::<Vec<_>>().join(",")
}

pub fn enc_case(pairs: &[Pair]) -> String {
    let mut s = format!("unifyseq {}", pairs.len());
    for (a, b) in pairs { s.push(' '); enc_term(a, &mut s); s.push(' '); enc_term(b, &mut s); }
    s
}

/// does the reference see an occurs-check situation (or an ill-formed term) anywhere in the sequence?
/// Also returns the reference environment after the prefix and the verdict for the last pair.
pub struct RefRun { pub occurs: bool, pub prefix_ok: bool, pub last: Option<RefRes>, pub env: refuni::Env, pub views: Vec<(FO, FO)> }

pub fn ref_run(pairs: &[Pair]) -> RefRun {
    let mut v = Viewer::new();
    let mut env = refuni::Env::new();
    let mut views = vec![];
    let mut last = None;
    let mut prefix_ok = true;
    for (i, (a, b)) in pairs.iter().enumerate() {
        let fa = v.view(&eval_funcs(a)); let fb = v.view(&eval_funcs(b));
        views.push((fa.clone(), fb.clone()));
        let r = refuni::unify(&fa, &fb, &mut env);
        if r == RefRes::Occurs { return RefRun{occurs: true, prefix_ok, last: None, env, views}; }
        if i + 1 == pairs.len() { last = Some(r); }
        else if r != RefRes::Ok { prefix_ok = false; last = None; return RefRun{occurs: false, prefix_ok, last, env, views}; }
    }
    RefRun{occurs: false, prefix_ok, last, env, views}
}

/// harness-side evaluation of ground arithmetic / join function terms (for the reference view)
pub fn eval_funcs(t: &Unifiable) -> Unifiable {
    match t {
        Unifiable::SFunction{name, terms} => {
            let args: Vec<Unifiable> = terms.iter().map(eval_funcs).collect();
            match crate::refarith::eval_ref(name, &args) { Some(v) => v, None => t.clone() }
        },
        Unifiable::SComplex(a) => Unifiable::SComplex(a.iter().map(eval_funcs).collect()),
        Unifiable::SLinkedList{term, next, count, tail_var} =>
            Unifiable::SLinkedList{term: Box::new(eval_funcs(term)), next: Box::new(eval_funcs(next)), count: *count, tail_var: *tail_var},
        _ => t.clone(),
    }
}

fn resolved_view(v: &mut Viewer, t: &Unifiable, ss: &SubstitutionSet) -> FO {
    match catch_unwind(AssertUnwindSafe(|| t.replace_variables(ss))) {
        Ok(r) => v.view(&r),
        Err(_) => FO::Bad("panic".into()),
    }
}

fn all_vars(pairs: &[Pair]) -> Vec<usize> {
    let mut vs = vec![];
    for (a, b) in pairs { refuni::vars_of(a, &mut vs); refuni::vars_of(b, &mut vs); }
    vs.sort(); vs
}

/// chain check of C08: from every variable, following variable-to-variable bindings ends
pub fn chains_end(ss: &SubstitutionSet) -> Option<usize> {
    for start in 0..ss.len() {
        let mut id = start; let mut steps = 0;
        loop {
            if id >= ss.len() { break; }
            match &ss[id] {
                Some(t) => match &**t { Unifiable::LogicVar{id: j, ..} => { id = *j; }, _ => break },
                None => break,
            }
            steps += 1;
            if steps > ss.len() + 1 { return Some(start); }
        }
    }
    None
}

pub struct Cfg { pub props: Vec<String>, pub renamed: bool }
impl Cfg { pub fn want(&self, p: &str) -> bool { self.props.iter().any(|x| x == p) } }

/// emit one case: CASE / IMPL lines plus the oracle verdicts requested
/// the subject pair as the engine would see it: each side renamed apart like a rule head and a
/// query (own name maps, ids above everything used so far)
fn rename_last(pairs: &[Pair]) -> Vec<Pair> {
    let mut v = pairs.to_vec();
    let k = v.len() - 1;
    let zero = |t: &Unifiable| -> Unifiable { zero_ids(t) };
    let (a, b) = (zero(&v[k].0), zero(&v[k].1));
    set_var_id(20);
    let a2 = a.recreate_variables(&mut VarMap::new());
    let b2 = b.recreate_variables(&mut VarMap::new());
    v[k] = (a2, b2);
    v
}
fn zero_ids(t: &Unifiable) -> Unifiable {
    match t {
        Unifiable::LogicVar{name, ..} => Unifiable::LogicVar{id: 0, name: name.clone()},
        Unifiable::SComplex(a) => Unifiable::SComplex(a.iter().map(zero_ids).collect()),
        Unifiable::SFunction{name, terms} => Unifiable::SFunction{name: name.clone(), terms: terms.iter().map(zero_ids).collect()},
        Unifiable::SLinkedList{term, next, count, tail_var} => Unifiable::SLinkedList{term: Box::new(zero_ids(term)), next: Box::new(zero_ids(next)), count: *count, tail_var: *tail_var},
        _ => t.clone(),
    }
}

pub fn emit(out: &mut Out, cfg: &Cfg, pairs: &[Pair]) {
    if !out.begin() { return; }
    let renamed_store;
    let pairs: &[Pair] = if cfg.renamed {
        match catch_unwind(AssertUnwindSafe(|| rename_last(pairs))) { Ok(v) => { renamed_store = v; &renamed_store }, Err(_) => pairs }
    } else { pairs };
    let rr = ref_run(pairs);
    if rr.occurs { out.stat("skipped_occurs", 1); return; }
    let id = out.case(&enc_case(pairs));
    let (sts, sets) = run_impl(pairs);
    let last_ss = sets.last().unwrap();
    out.impl_line(id, &format!("{} {}", status_str(&sts), enc_subst(last_ss)));
    let anon = pairs.iter().any(|(a, b)| refuni::has_anon(a) || refuni::has_anon(b));
    let func = pairs.iter().any(|(a, b)| refuni::has_func(a) || refuni::has_func(b));
    out.stat(&format!("steps_{}", pairs.len()), 1);
    out.stat(&format!("last_{}", status_str(&sts[sts.len()-1..])), 1);
    if anon { out.stat("with_anon", 1); }
    if func { out.stat("with_func", 1); }
    {
        let (la, lb) = &pairs[pairs.len() - 1];
        let is_const = |t: &Unifiable| matches!(t, Unifiable::Atom(_) | Unifiable::SInteger(_) | Unifiable::SFloat(_));
        if term_str(la) == term_str(lb) || (is_const(la) && is_const(lb)) { out.trivial(id); }
    }
    let all_ok = sts.iter().all(|s| *s == Status::Ok);
    // the same sequence while the process-wide stop flag is set (a query that timed out leaves it set until the next
    // query is built, and built-in unifications of a rule body still run after the timer fired): unification must
    // not depend on it
    {
        let saved = get_var_id();
        stop_query();
        let (sts2, sets2) = run_impl(pairs);
        start_query();
        set_var_id(saved);
        out.stat("also_run_with_stop_flag_set", 1);
        let same = sts2 == sts && enc_subst(sets2.last().unwrap()) == enc_subst(last_ss);
        if cfg.want("C08") && sts2.contains(&Status::Cyclic) && !sts.contains(&Status::Cyclic) {
            out.oracle(id, "C08", false, "with the stop flag set the sequence ends in a substitution set whose binding chains do not end");
        } else if !same {
            for p in ["C06", "C08"] { if cfg.want(p) { out.oracle(id, p, false, &format!("with the stop flag set the sequence gives a different result (`{}` and another substitution set, instead of `{}`)", status_str(&sts2), status_str(&sts))); } }
        }
    }
    if sts.contains(&Status::Cyclic) {
        if cfg.want("C08") { out.oracle(id, "C08", false, "a binding chain does not end after a successful unification"); }
        return;
    }
    let prefix_ok = sts.len() == pairs.len() && sts[..sts.len()-1].iter().all(|s| *s == Status::Ok);
    let k = pairs.len();
    let (a, b) = &pairs[k - 1];

    // ---- C08: chains end after every successful step; aliased pairs add no binding
    if cfg.want("C08") {
        let mut bad = None;
        for s in &sets { if let Some(v) = chains_end(s) { bad = Some(v); break; } }
        match bad {
            Some(v) => out.oracle(id, "C08", false, &format!("binding chain from variable {} does not end", v)),
            None => {
                let mut ok = true; let mut msg = String::new();
                if prefix_ok {
                    if let (Unifiable::LogicVar{..}, Unifiable::LogicVar{..}) = (a, b) {
                        let prior = &sets[k - 1];
                        let ga = get_ground_chain_end(a, prior); let gb = get_ground_chain_end(b, prior);
                        if ga.is_some() && ga == gb {
                            for (x, y) in [(a, b), (b, a)] {
                                match unify_once(x, y, prior) {
                                    Ok(Some(s2)) => if enc_subst(&s2) != enc_subst(prior) { ok = false; msg = "unifying two aliased variables added a binding".into(); },
                                    _ => { ok = false; msg = "unifying two aliased variables did not succeed".into(); },
                                }
                            }
                        }
                    }
                }
                out.oracle(id, "C08", ok, &msg);
            },
        }
    }

    if !prefix_ok { return; }
    // NaN is equal to nothing, itself included: the properties do not speak about it
    if pairs.iter().any(|(a, b)| refuni::has_nan(a) || refuni::has_nan(b)) { out.stat("nan_cases_model_only", 1); return; }
    let prior = &sets[k - 1];
    let vars = all_vars(pairs);

    // ---- C06: agreement with Robinson (anon-free, function-free cases)
    if cfg.want("C06") && !anon && !func {
        let mut v = Viewer::new();
        let verdict: Result<(), String> = (|| {
            if !rr.prefix_ok { return Err("an earlier unification succeeded although no unifier exists".to_string()); }
            let want = rr.last.as_ref().unwrap();
            let got_ok = sts[k - 1] == Status::Ok;
            if sts[k - 1] == Status::Panic { return Err("unify panicked".into()); }
            if (*want == RefRes::Ok) != got_ok { return Err(format!("reference says {:?}, implementation {}", want, if got_ok {"succeeded"} else {"failed"})); }
            if !got_ok { return Ok(()); }
            let s2 = &sets[k];
            for i in 0..prior.len() {
                if let Some(t) = &prior[i] {
                    match s2.get(i) { Some(Some(t2)) if term_str(t) == term_str(t2) => {}, _ => return Err(format!("earlier binding of variable {} changed", i)) }
                }
            }
            let ra = resolved_view(&mut v, a, s2); let rb = resolved_view(&mut v, b, s2);
            if ra != rb { return Err("resolved terms differ after successful unification".into()); }
            let mut prs = vec![];
            for x in &vars { prs.push((resolved_view(&mut v, &var(*x), s2), refuni::resolve(&FO::Var(*x), &rr.env, 0))); }
            if !refuni::variants(&prs) { return Err("result is not a variant of the most general unifier".into()); }
            Ok(())
        })();
        match verdict { Ok(()) => out.oracle(id, "C06", true, ""), Err(m) => out.oracle(id, "C06", false, &m) }
    }

    // ---- C07: symmetry
    if cfg.want("C07") && !func {
        let r1 = unify_once(a, b, prior); let r2 = unify_once(b, a, prior);
        let verdict: Result<(), String> = (|| {
            match (&r1, &r2) {
                (Ok(Some(s1)), Ok(Some(s2))) => {
                    let mut v = Viewer::new();
                    let mut prs = vec![];
                    for x in &vars { prs.push((resolved_view(&mut v, &var(*x), s1), resolved_view(&mut v, &var(*x), s2))); }
                    if !refuni::variants(&prs) { return Err("A=B and B=A give different resolved values".into()); }
                    Ok(())
                },
                (Ok(None), Ok(None)) => Ok(()),
                (Err(_), Err(_)) => Ok(()),
                _ => Err(format!("A=B {} but B=A {}", outcome(&r1), outcome(&r2))),
            }
        })();
        match verdict { Ok(()) => out.oracle(id, "C07", true, ""), Err(m) => out.oracle(id, "C07", false, &m) }
    }

    // ---- C09: anonymous variable
    if cfg.want("C09") && !func {
        let verdict: Result<(), String> = (|| {
            // (i) $_ against each operand, both orders: success, σ unchanged
            for t in [a, b] {
                for (x, y) in [(&Unifiable::Anonymous, t), (t, &Unifiable::Anonymous)] {
                    match unify_once(x, y, prior) {
                        Ok(Some(s)) => if enc_subst(&s) != enc_subst(prior) { return Err("unifying with $_ changed the bindings".into()); },
                        _ => return Err("unifying with $_ did not succeed".into()),
                    }
                }
            }
            if sts[k - 1] == Status::Ok {
                let s2 = &sets[k];
                // (ii) no variable is bound to $_ itself
                for i in 0..s2.len() { if let Some(t) = &s2[i] { if **t == Unifiable::Anonymous { return Err(format!("variable {} is bound to $_", i)); } } }
                // (iv) resolved operands match, $_ being a wildcard
                let mut v = Viewer::new();
                let ra = resolved_view(&mut v, a, s2); let rb = resolved_view(&mut v, b, s2);
                if !refuni::matches(&ra, &rb) { return Err("resolved terms do not match (with $_ as wildcard)".into()); }
            }
            // (iii) as if unseen: drop every step that has $_ as a whole operand
            let stripped: Vec<Pair> = pairs.iter().filter(|(x, y)| *x != Unifiable::Anonymous && *y != Unifiable::Anonymous).cloned().collect();
            if stripped.len() != pairs.len() && *a != Unifiable::Anonymous && *b != Unifiable::Anonymous {
                let (st2, sets2) = run_impl(&stripped);
                let same = st2.last() == sts.last() && enc_subst(sets2.last().unwrap()) == enc_subst(last_ss);
                if !same { return Err("a variable unified with $_ earlier behaves differently later".into()); }
            }
            // (v) completeness / soundness against the reference with $_ read as fresh variables,
            //     when no earlier binding contains $_
            let prior_has_anon = prior.iter().any(|e| match e { Some(t) => refuni::has_anon(t), None => false });
            if !prior_has_anon && rr.prefix_ok {
                if let Some(want) = &rr.last {
                    let got_ok = sts[k - 1] == Status::Ok;
                    if (*want == RefRes::Ok) != got_ok { return Err(format!("with $_ read as a fresh variable the reference says {:?}, implementation {}", want, if got_ok {"succeeded"} else {"failed"})); }
                }
            }
            Ok(())
        })();
        match verdict { Ok(()) => out.oracle(id, "C09", true, ""), Err(m) => out.oracle(id, "C09", false, &m) }
    }

    // ---- C13: a function term behaves as its value, on either side
    if cfg.want("C13") && func {
        let verdict: Result<(), String> = (|| {
            // the property speaks of a function term that is itself an operand
            // (its arguments taken with the bindings made so far)
            let top = |t: &Unifiable| -> Unifiable {
                if let Unifiable::SFunction{name, terms} = t {
                    match catch_unwind(AssertUnwindSafe(|| terms.iter().map(|x| x.replace_variables(prior)).collect::<Vec<Unifiable>>())) {
                        Ok(g) => eval_funcs(&Unifiable::SFunction{name: name.clone(), terms: g}),
                        Err(_) => t.clone(),
                    }
                } else { t.clone() }
            };
            let va = top(a); let vb = top(b);
            if refuni::has_func(&va) || refuni::has_func(&vb) { return Ok(()); } // nested / not evaluable: outside the claim
            if refuni::has_nan(&va) || refuni::has_nan(&vb) { return Ok(()); } // the value is NaN, equal to nothing, itself included
            let want = unify_once(&va, &vb, prior);
            let got = unify_once(a, b, prior);
            match (&want, &got) {
                (Ok(Some(s1)), Ok(Some(s2))) => {
                    let mut v = Viewer::new();
                    let mut prs = vec![];
                    for x in &vars { prs.push((resolved_view(&mut v, &var(*x), s1), resolved_view(&mut v, &var(*x), s2))); }
                    if !refuni::variants(&prs) { return Err("function term and its value give different bindings".into()); }
                    Ok(())
                },
                (Ok(None), Ok(None)) => Ok(()),
                _ => Err(format!("with the function term: {}; with its value: {}", outcome(&got), outcome(&want))),
            }
        })();
        match verdict { Ok(()) => out.oracle(id, "C13", true, ""), Err(m) => out.oracle(id, "C13", false, &m) }
    }
    let _ = all_ok;
}

fn outcome(r: &Result<Option<SubstitutionSet<'static>>, ()>) -> &'static str {
    match r { Ok(Some(_)) => "succeeds", Ok(None) => "fails", Err(_) => "panics or builds a cycle" }
}

/// id of the unbound variable a variable chain ends at (None when it ends at a non-variable)
fn get_ground_chain_end(t: &Unifiable, ss: &SubstitutionSet) -> Option<usize> {
    let mut cur = t.clone(); let mut steps = 0;
    loop {
        match &cur {
            Unifiable::LogicVar{id, ..} => {
                if *id < ss.len() { if let Some(n) = &ss[*id] { cur = (**n).clone(); steps += 1; if steps > ss.len() + 2 { return None; } continue; } }
                return Some(*id);
            },
            _ => return None,
        }
    }
}

pub fn gen_case(r: &mut Rng, u: &Universe) -> Vec<Pair> {
    let k = 1 + r.below(4);
    let mut pairs = vec![];
    for i in 0..k {
        let last = i + 1 == k;
        let mode = r.below(10);
        let a = if !last && mode < 5 { var(1 + r.below(u.nvars)) } else { gen_term(r, u, 0) };
        let b = if mode < 6 && !(u.func && last) { mutate(r, u, &a, 0) }
                else if u.anon && mode == 6 { Unifiable::Anonymous }
                else { gen_term(r, u, 0) };
        if r.chance(1, 2) { pairs.push((a, b)); } else { pairs.push((b, a)); }
    }
    pairs
}

/// C13 with the arguments of the function reached through variables: a number bound to a variable, a chain of one to
/// three aliases, then a function term over the last alias against its value / another number / an unbound variable /
/// another function term, in both orders (seeded change C13r9: a shortcut that looked one binding deep)
pub fn gen_case_funcvars(r: &mut Rng, u: &Universe) -> Vec<Pair> {
    let mut pairs: Vec<Pair> = vec![];
    let val = gen_num(r);
    let links = 1 + r.below(3.min(u.nvars - 1));
    let flip = |r: &mut Rng, a: Unifiable, b: Unifiable| -> Pair { if r.chance(1, 2) { (a, b) } else { (b, a) } };
    let p = flip(r, var(1), val.clone()); pairs.push(p);
    for i in 2..=links { let p = flip(r, var(i), var(i - 1)); pairs.push(p); }
    let name = *r.pick(&["add", "subtract", "multiply", "divide"]);
    // (every third time the neutral element, so that `$X = $X + 0` holds of the bound value)
    let other_arg = if r.chance(1, 3) { if name == "add" || name == "subtract" { SInteger(0) } else { SInteger(1) } }
                    else { let mut x = gen_num(r); if name == "divide" { if let SInteger(0) = x { x = SInteger(2); } } x };
    let (args, ground) = match r.below(3) {
        0 => (vec![var(links), other_arg.clone()], vec![val.clone(), other_arg]),
        1 => (vec![other_arg.clone(), var(links)], vec![other_arg, val.clone()]),
        _ => (vec![var(links), other_arg.clone(), var(1)], vec![val.clone(), other_arg, val.clone()]),
    };
    let f = Unifiable::SFunction{name: name.to_string(), terms: args};
    let other = match r.below(6) {
        0 | 1 => match crate::refarith::eval_ref(name, &ground) { Some(v) => v, None => gen_num(r) },
        2 => gen_num(r),
        3 => var(u.nvars),
        // the bound variable that is itself an argument of the function (seeded change C13r11: an "occurs check" that refused it)
        4 => if r.chance(1, 2) { var(links) } else { var(1) },
        _ => gen_func(r, u, 0),
    };
    let p = flip(r, f, other); pairs.push(p);
    pairs
}

pub fn run_random(out: &mut Out, cfg: &Cfg, u: &Universe, seed: u64, n: usize) {
    let mut r = Rng::new(seed);
    for i in 0..n {
        let c = if u.func && i % 4 == 3 { gen_case_funcvars(&mut r, u) } else { gen_case(&mut r, u) };
        emit(out, cfg, &c);
    }
}

/// the small universe U used for the bounded-exhaustive sweep
pub fn small_universe(anon: bool, func: bool) -> Vec<Unifiable> {
    let x = var(1); let y = var(2); let z = var(3);
    let mut u = vec![atom!("a"), atom!("b"), SInteger(1), SFloat(1.0), x.clone(), y.clone(), z.clone()];
    if anon { u.push(Unifiable::Anonymous); }
    let leaves = u.clone();
    let pick: Vec<Unifiable> = vec![atom!("a"), x.clone(), y.clone()].into_iter().chain(if anon { vec![Unifiable::Anonymous] } else { vec![] }).collect();
    for l in &leaves { u.push(scomplex!(atom!("f"), l.clone())); }
    for p in &pick { for q in &pick { u.push(scomplex!(atom!("f"), p.clone(), q.clone())); } }
    u.push(scomplex!(atom!("g"), x.clone()));
    u.push(proper_list(vec![], None));
    for p in &pick { u.push(proper_list(vec![p.clone()], None)); }
    for p in &pick { for q in &pick { u.push(proper_list(vec![p.clone(), q.clone()], None)); } }
    for p in &pick { u.push(proper_list(vec![p.clone()], Some(z.clone()))); }
    for p in &pick { u.push(proper_list(vec![p.clone(), atom!("b")], Some(y.clone()))); }
    if anon { u.push(proper_list(vec![atom!("a")], Some(Unifiable::Anonymous))); }
    u.push(proper_list(vec![proper_list(vec![], None)], None));
    u.push(proper_list(vec![proper_list(vec![atom!("a")], None), x.clone()], None));
    if func {
        u.push(sfunction!("add", SInteger(1), SInteger(2)));
        u.push(sfunction!("add", SInteger(2), SInteger(1)));
        u.push(sfunction!("multiply", SFloat(1.0), SInteger(1)));
        u.push(sfunction!("join", atom!("a"), atom!("b")));
        u.push(scomplex!(atom!("f"), sfunction!("subtract", SInteger(2), SInteger(1))));
        u.push(SInteger(3)); u.push(atom!("a b"));
        u.push(proper_list(vec![sfunction!("divide", SInteger(2), SInteger(2))], None));
    }
    u
}

pub fn priors() -> Vec<Vec<Pair>> {
    let x = var(1); let y = var(2); let z = var(3);
    vec![
        vec![],
        vec![(x.clone(), atom!("a"))],
        vec![(x.clone(), y.clone())],
        vec![(y.clone(), x.clone())],
        vec![(x.clone(), y.clone()), (y.clone(), z.clone())],
        vec![(z.clone(), proper_list(vec![atom!("a")], None))],
        vec![(y.clone(), proper_list(vec![], None))],
        vec![(x.clone(), scomplex!(atom!("f"), y.clone()))],
        vec![(x.clone(), y.clone()), (z.clone(), SInteger(1))],
        vec![(z.clone(), proper_list(vec![x.clone()], Some(y.clone())))],
    ]
}

pub fn run_exhaustive(out: &mut Out, cfg: &Cfg, anon: bool, func: bool, shard: usize, nshards: usize) {
    let u = small_universe(anon, func);
    let ps = priors();
    let mut idx = 0usize;
    for p in &ps { for a in &u { for b in &u {
        idx += 1;
        if idx % nshards != shard { continue; }
        let mut c = p.clone(); c.push((a.clone(), b.clone()));
        emit(out, cfg, &c);
    } } }
    // long alias chains: $V1 = $V2, ..., $Vn = $Vn+1, then the two ends unified again, from either end; also a chain that
    // ends in a constant (no bound on the number of links the implementation may follow is part of the properties)
    if shard == 0 {
        for n in [3usize, 50, 101, 102, 150, 257] {
            let chain: Vec<Pair> = (1..=n).map(|i| (var(i), var(i + 1))).collect();
            let back: Vec<Pair> = (1..=n).map(|i| (var(i + 1), var(i))).collect();
            for base in [&chain, &back] {
                for last in [(var(n + 1), var(1)), (var(1), var(n + 1)), (var(n + 1), atom!("a")), (var(1), atom!("a"))] {
                    let mut c = base.clone(); c.push(last);
                    emit(out, cfg, &c);
                    out.stat("long_alias_chain_cases", 1);
                }
            }
        }
    }
}

pub fn dec_case(body: &str) -> Option<Vec<Pair>> {
    let toks: Vec<&str> = body.split_whitespace().collect();
    if toks.get(0) != Some(&"unifyseq") { return None; }
    let k: usize = toks.get(1)?.parse().ok()?;
    let mut i = 2; let mut v = vec![];
    for _ in 0..k { let a = dec_term(&toks, &mut i)?; let b = dec_term(&toks, &mut i)?; v.push((a, b)); }
    Some(v)
}
